// c11_io.hpp -- plumbing of the C11 monitor ("reading any byte sequence terminates safely"):
//   * allocation cap: full replacement set of global operator new/delete over malloc/free; a request
//     above 256 MiB throws std::bad_alloc (under ASan a huge new would abort the process instead);
//     every block is filled with a selectable byte so that heap bytes nobody wrote are visible in
//     the outcome digest (heap half of the uninitialised-data differential)
//   * instrumented devices: a std::streambuf over the input bytes, an unbuffered fopencookie FILE*
//     over the same bytes, and link-time wrappers (-Wl,--wrap=...) around std::istream::peek/get/
//     readsome/read/seekg: once a std::istream is in eof/fail state it does not call its streambuf
//     any more, so the "reads that return nothing at EOF" of GIL's istream_device can only be
//     counted at the istream interface
//   * logical step budget (no clocks): reads that return 0 bytes at EOF and total bytes requested
//     are bounded by a function of the input length and the declared image size; overrun =>
//     vh::fatal_monitor("hang....") (the process leaves by itself)
//   * stack pre-fill for the in-process uninitialised-data differential
//   * outcome record / digest, arena with outside-the-view diff, byte mutation helpers
//
// This header defines global operator new/delete and the wrap symbols: include it in exactly one TU
// of a binary and link with C11_WRAP_FLAGS (see propcfg/c11.py).
#pragma once
#ifndef _GNU_SOURCE
#define _GNU_SOURCE
#endif
#include <cstdio>
#include <cstdlib>
#include <cstring>
#include <cstdint>
#include <new>
#include <string>
#include <vector>
#include <istream>
#include <streambuf>
#include <sstream>
#include <typeinfo>
#include <exception>
#include <ios>
#include <unistd.h>
#include <sys/stat.h>
#include <sys/time.h>
#include <signal.h>
#include "common/vh.hpp"

namespace c11 {

// ---------------------------------------------------------------------------------------------
// allocation cap + fill
struct alloc_state_t {
    size_t cap = (size_t)256 << 20;
    int fill = -1;               // >= 0: every new block is filled with this byte
    uint64_t cap_hits = 0;       // requests refused because of the cap (since reset)
    uint64_t biggest = 0;
};
inline alloc_state_t& alloc_state() { static alloc_state_t a; return a; }

inline void* cap_alloc(size_t n, bool nothrow) {
    alloc_state_t& a = alloc_state();
    if (n > a.biggest) a.biggest = n;
    if (n > a.cap) {
        ++a.cap_hits;
        if (nothrow) return nullptr;
        throw std::bad_alloc();
    }
    void* p = malloc(n ? n : 1);
    if (!p) {
        if (nothrow) return nullptr;
        throw std::bad_alloc();
    }
    if (a.fill >= 0 && n) memset(p, a.fill, n);
    return p;
}
inline void* cap_alloc_aligned(size_t n, size_t al, bool nothrow) {
    alloc_state_t& a = alloc_state();
    if (n > a.cap) {
        ++a.cap_hits;
        if (nothrow) return nullptr;
        throw std::bad_alloc();
    }
    void* p = nullptr;
    if (al < sizeof(void*)) al = sizeof(void*);
    if (posix_memalign(&p, al, n ? n : 1) != 0 || !p) {
        if (nothrow) return nullptr;
        throw std::bad_alloc();
    }
    if (a.fill >= 0 && n) memset(p, a.fill, n);
    return p;
}
} // namespace c11

void* operator new(std::size_t n) { return c11::cap_alloc(n, false); }
void* operator new[](std::size_t n) { return c11::cap_alloc(n, false); }
void* operator new(std::size_t n, const std::nothrow_t&) noexcept { return c11::cap_alloc(n, true); }
void* operator new[](std::size_t n, const std::nothrow_t&) noexcept { return c11::cap_alloc(n, true); }
void operator delete(void* p) noexcept { free(p); }
void operator delete[](void* p) noexcept { free(p); }
void operator delete(void* p, std::size_t) noexcept { free(p); }
void operator delete[](void* p, std::size_t) noexcept { free(p); }
void operator delete(void* p, const std::nothrow_t&) noexcept { free(p); }
void operator delete[](void* p, const std::nothrow_t&) noexcept { free(p); }
#if __cplusplus >= 201703L
void* operator new(std::size_t n, std::align_val_t al) { return c11::cap_alloc_aligned(n, (size_t)al, false); }
void* operator new[](std::size_t n, std::align_val_t al) { return c11::cap_alloc_aligned(n, (size_t)al, false); }
void* operator new(std::size_t n, std::align_val_t al, const std::nothrow_t&) noexcept { return c11::cap_alloc_aligned(n, (size_t)al, true); }
void* operator new[](std::size_t n, std::align_val_t al, const std::nothrow_t&) noexcept { return c11::cap_alloc_aligned(n, (size_t)al, true); }
void operator delete(void* p, std::align_val_t) noexcept { free(p); }
void operator delete[](void* p, std::align_val_t) noexcept { free(p); }
void operator delete(void* p, std::size_t, std::align_val_t) noexcept { free(p); }
void operator delete[](void* p, std::size_t, std::align_val_t) noexcept { free(p); }
void operator delete(void* p, std::align_val_t, const std::nothrow_t&) noexcept { free(p); }
void operator delete[](void* p, std::align_val_t, const std::nothrow_t&) noexcept { free(p); }
#endif

namespace c11 {

// ---------------------------------------------------------------------------------------------
// device statistics and the logical step budget
struct devstats {
    uint64_t calls = 0;        // read-type calls seen by the device (streambuf xsgetn / cookie read / istream ops)
    uint64_t bytes_req = 0;    // bytes requested
    uint64_t bytes_ret = 0;    // bytes delivered
    uint64_t zero_eof = 0;     // read-type calls that delivered nothing because the input is exhausted
    uint64_t seeks = 0;
    uint64_t seeks_beyond = 0; // seeks to a position outside [0,len]
    uint64_t is_ops = 0;       // std::istream-level operations (wrapped peek/get/readsome/read/seekg)
    uint64_t f_ops = 0;        // stdio-level operations on a FILE* (wrapped getc/fgetc/fread/fseek)
    uint64_t short_small = 0;  // read calls asking for <= 8 bytes (a fixed-size field) that delivered fewer than asked
    uint64_t work = 0;         // sum over read calls of (bytes that could be delivered + 1): a huge request at EOF costs 1
};
struct budget_t {
    bool armed = false;
    uint64_t max_bytes = 0, max_eof = 0;
    uint64_t len = 0, declared = 0;
    const char* dev = "?";
    const char* entry = "?";
    const char* fmt = "?";
    devstats* st = nullptr;
};
inline budget_t& budget() { static budget_t b; return b; }
static const uint64_t K_EOF = 4096;
static const uint64_t PIX_CAP_BYTES = (uint64_t)256 << 20;   // min(declared pixels * 4, cap)
static const uint64_t PIX_CAP_EOF = (uint64_t)4 << 20;

inline void arm_budget(devstats* st, const char* fmt, const char* dev, const char* entry, uint64_t len, uint64_t declared_pixels) {
    budget_t& b = budget();
    b.st = st; b.fmt = fmt; b.dev = dev; b.entry = entry; b.len = len; b.declared = declared_pixels;
    uint64_t p4 = declared_pixels > PIX_CAP_BYTES / 4 ? PIX_CAP_BYTES : declared_pixels * 4;
    b.max_bytes = 64 + 16 * (len + p4);
    // a reader may legitimately come back to an exhausted device once per declared row / packet / palette
    // entry; beyond K + 8 * min(declared pixels, 4 Mi) such calls it is not making progress any more
    b.max_eof = K_EOF + 8 * (declared_pixels > PIX_CAP_EOF ? PIX_CAP_EOF : declared_pixels);
    b.armed = true;
}
inline void disarm_budget() { budget().armed = false; budget().st = nullptr; }
inline void check_budget() {
    budget_t& b = budget();
    if (!b.armed || !b.st) return;
    if (b.st->zero_eof > b.max_eof || b.st->work > b.max_bytes) vh::on_death();     // counters of the cases completed so far
    if (b.st->zero_eof > b.max_eof)
        vh::fatal_monitor(vh::cat("hang.eof-spin.", b.dev, ".", b.entry),
                          vh::cat(b.fmt, " via ", b.dev, " ", b.entry, ": ", b.st->zero_eof, " reads returned nothing at EOF (budget ", b.max_eof,
                                  "; input ", b.len, " bytes, declared pixels ", b.declared, "); bytes requested so far ", b.st->bytes_req));
    if (b.st->work > b.max_bytes)
        vh::fatal_monitor(vh::cat("hang.bytes-budget.", b.dev, ".", b.entry),
                          vh::cat(b.fmt, " via ", b.dev, " ", b.entry, ": read calls moved ", b.st->work, " bytes+calls (budget ", b.max_bytes,
                                  "; input ", b.len, " bytes, declared pixels ", b.declared, "; ", b.st->bytes_req, " bytes requested in ", b.st->calls, " calls)"));
}

// ---------------------------------------------------------------------------------------------
// (a) std::streambuf over the input bytes.  The whole input is the get area; underflow() is therefore
// only reached when the input is exhausted.  Seeking follows std::stringbuf: positions outside
// [0,len] fail.
struct in_streambuf : std::streambuf {
    devstats& st;
    in_streambuf(std::string const& bytes, devstats& s) : st(s) {
        char* b = const_cast<char*>(bytes.data());
        setg(b, b, b + bytes.size());
    }
    int_type underflow() override { ++st.calls; ++st.zero_eof; check_budget(); return traits_type::eof(); }
    std::streamsize xsgetn(char* s, std::streamsize n) override {
        ++st.calls; st.bytes_req += (uint64_t)(n > 0 ? n : 0);
        std::streamsize avail = egptr() - gptr();
        std::streamsize k = n < avail ? n : avail;
        st.work += (uint64_t)(k > 0 ? k : 0) + 1;
        check_budget();
        if (k > 0) { memcpy(s, gptr(), (size_t)k); gbump((int)k); }
        if (k <= 0 && n > 0) { ++st.zero_eof; check_budget(); }
        st.bytes_ret += (uint64_t)(k > 0 ? k : 0);
        return k > 0 ? k : 0;
    }
    std::streamsize showmanyc() override { return -1; }     // get area exhausted == end of input
    pos_type seekoff(off_type off, std::ios_base::seekdir dir, std::ios_base::openmode) override {
        ++st.seeks;
        off_type cur = gptr() - eback(), end = egptr() - eback();
        off_type np = dir == std::ios_base::beg ? off : dir == std::ios_base::cur ? cur + off : end + off;
        if (np < 0 || np > end) { ++st.seeks_beyond; return pos_type(off_type(-1)); }
        setg(eback(), eback() + np, egptr());
        return pos_type(np);
    }
    pos_type seekpos(pos_type p, std::ios_base::openmode m) override { return seekoff(off_type(p), std::ios_base::beg, m); }
};

// (b) FILE* over the same bytes (fopencookie, unbuffered: calls and sizes are what the reader asked
// for).  GIL's file_stream_device owns and fcloses the FILE*; the cookie outlives it.
struct cookie_t {
    const std::string* bytes = nullptr;
    size_t pos = 0;
    bool closed = false;
    devstats* st = nullptr;
};
inline ssize_t cookie_read(void* c, char* buf, size_t n) {
    cookie_t* k = (cookie_t*)c;
    ++k->st->calls; k->st->bytes_req += n;
    size_t len = k->bytes->size();
    k->st->work += (k->pos < len ? (n < len - k->pos ? n : len - k->pos) : 0) + 1;
    check_budget();
    if (k->pos >= len) { ++k->st->zero_eof; if (n && n <= 8) ++k->st->short_small; check_budget(); return 0; }
    size_t m = n < len - k->pos ? n : len - k->pos;
    if (m < n && n <= 8) ++k->st->short_small;
    memcpy(buf, k->bytes->data() + k->pos, m);
    k->pos += m; k->st->bytes_ret += m;
    return (ssize_t)m;
}
inline int cookie_seek(void* c, off64_t* off, int whence) {
    cookie_t* k = (cookie_t*)c;
    ++k->st->seeks;
    long long base = whence == SEEK_SET ? 0 : whence == SEEK_CUR ? (long long)k->pos : (long long)k->bytes->size();
    long long np = base + *off;
    if (np < 0) { ++k->st->seeks_beyond; return -1; }
    if ((size_t)np > k->bytes->size()) ++k->st->seeks_beyond;     // like a real file: allowed, reads then return 0
    k->pos = (size_t)np; *off = np;
    return 0;
}
inline int cookie_close(void* c) { ((cookie_t*)c)->closed = true; return 0; }
inline FILE* open_cookie(cookie_t* k) {
    cookie_io_functions_t io = { &cookie_read, nullptr, &cookie_seek, &cookie_close };
    FILE* f = fopencookie(k, "rb", io);
    if (!f) vh::fatal_monitor("harness", "fopencookie failed");
    setvbuf(f, nullptr, _IONBF, 0);
    return f;
}

// (c) scratch files for the file-name entry point
inline std::string scratch_dir() {
    const char* e = getenv("VERIF_SCRATCH");
    std::string d = e && *e ? e : "/dev/shm/gilscratch.c11/run";
    mkdir(d.c_str(), 0777);
    return d;
}
struct scratch_file {
    std::string path;
    scratch_file(std::string const& bytes, const char* ext) {
        static long counter = 0;
        static std::string dir = scratch_dir();
        path = vh::cat(dir, "/c11.", (long)getpid(), ".", counter++, ".", ext);
        FILE* f = fopen(path.c_str(), "wb");
        if (!f) vh::fatal_monitor("harness", "cannot create scratch file " + path);
        if (!bytes.empty() && fwrite(bytes.data(), 1, bytes.size(), f) != bytes.size()) vh::fatal_monitor("harness", "short write to " + path);
        fclose(f);
    }
    ~scratch_file() { unlink(path.c_str()); }
};

} // namespace c11

// ---------------------------------------------------------------------------------------------
// std::istream-level counters (link with -Wl,--wrap=<each symbol>): GIL's istream_device reads with
// peek()+readsome() and get(); after eofbit/failbit these return at the sentry without touching the
// streambuf, so an endless decoder loop at EOF is only visible here.
extern "C" {
int __real__ZNSi4peekEv(std::istream*);
int __real__ZNSi3getEv(std::istream*);
std::streamsize __real__ZNSi8readsomeEPcl(std::istream*, char*, std::streamsize);
std::istream* __real__ZNSi4readEPcl(std::istream*, char*, std::streamsize);
std::istream* __real__ZNSi5seekgElSt12_Ios_Seekdir(std::istream*, std::streamoff, std::ios_base::seekdir);

int __wrap__ZNSi4peekEv(std::istream* s) {
    c11::budget_t& b = c11::budget();
    int r = __real__ZNSi4peekEv(s);
    if (b.armed && b.st) { ++b.st->is_ops; if (r == EOF) { ++b.st->zero_eof; c11::check_budget(); } }
    return r;
}
int __wrap__ZNSi3getEv(std::istream* s) {
    c11::budget_t& b = c11::budget();
    int r = __real__ZNSi3getEv(s);
    if (b.armed && b.st) { ++b.st->is_ops; ++b.st->bytes_req; b.st->work += 2; if (r == EOF) { ++b.st->zero_eof; } c11::check_budget(); }
    return r;
}
std::streamsize __wrap__ZNSi8readsomeEPcl(std::istream* s, char* p, std::streamsize n) {
    c11::budget_t& b = c11::budget();
    std::streamsize r = __real__ZNSi8readsomeEPcl(s, p, n);
    if (b.armed && b.st) { ++b.st->is_ops; if (n > 0 && n <= 8 && r < n) ++b.st->short_small; }
    return r;
}
std::istream* __wrap__ZNSi4readEPcl(std::istream* s, char* p, std::streamsize n) {
    c11::budget_t& b = c11::budget();
    if (b.armed && b.st) ++b.st->is_ops;
    return __real__ZNSi4readEPcl(s, p, n);
}
std::istream* __wrap__ZNSi5seekgElSt12_Ios_Seekdir(std::istream* s, std::streamoff o, std::ios_base::seekdir d) {
    c11::budget_t& b = c11::budget();
    if (b.armed && b.st) ++b.st->is_ops;
    return __real__ZNSi5seekgElSt12_Ios_Seekdir(s, o, d);
}
}

// ---------------------------------------------------------------------------------------------
// FILE*-level counters (link with -Wl,--wrap=getc,--wrap=fgetc,--wrap=fread,--wrap=fseek): GIL's file_stream_device
// reads with std::getc / fread / fseek.  glibc does not call a cookie (or the kernel) again once the stream is at
// EOF, so a decoder spinning at EOF on a FILE* -- cookie or real file -- is only countable at the stdio interface.
// Same budget as the istream counters.  Only calls made from the harness binary's own objects (GIL is header-only)
// are redirected; the codec libraries' own stdio use is not.
extern "C" {
int __real_getc(FILE*);
int __real_fgetc(FILE*);
size_t __real_fread(void*, size_t, size_t, FILE*);
int __real_fseek(FILE*, long, int);

int __wrap_getc(FILE* f) {
    int r = __real_getc(f);
    c11::budget_t& b = c11::budget();
    if (b.armed && b.st) { ++b.st->f_ops; b.st->work += 2; if (r == EOF) ++b.st->zero_eof; c11::check_budget(); }
    return r;
}
int __wrap_fgetc(FILE* f) {
    int r = __real_fgetc(f);
    c11::budget_t& b = c11::budget();
    if (b.armed && b.st) { ++b.st->f_ops; b.st->work += 2; if (r == EOF) ++b.st->zero_eof; c11::check_budget(); }
    return r;
}
size_t __wrap_fread(void* p, size_t size, size_t n, FILE* f) {
    size_t r = __real_fread(p, size, n, f);
    c11::budget_t& b = c11::budget();
    if (b.armed && b.st) {
        ++b.st->f_ops;
        size_t want = size * n, got = size * r;
        b.st->work += got + 1;
        if (want && !got) ++b.st->zero_eof;
        if (want && want <= 8 && got < want) ++b.st->short_small;
        c11::check_budget();
    }
    return r;
}
int __wrap_fseek(FILE* f, long off, int whence) {
    c11::budget_t& b = c11::budget();
    if (b.armed && b.st) ++b.st->f_ops;
    return __real_fseek(f, off, whence);
}
}

namespace c11 {

// ---------------------------------------------------------------------------------------------
// stack pre-fill: overwrites the stack region the reader is about to use with a known byte.  Must
// run with ASAN_OPTIONS detect_stack_use_after_return=0 (locals on the real stack).
static const int PREFILL_WORDS = 16384;     // 128 KiB
__attribute__((noinline, no_sanitize_address, no_sanitize_undefined)) inline void prefill_stack(unsigned char pat) {
    volatile unsigned long long buf[PREFILL_WORDS];
    unsigned long long v = 0x0101010101010101ull * pat;
    for (int i = 0; i < PREFILL_WORDS; ++i) buf[i] = v;
    asm volatile("" ::"r"(buf) : "memory");
}

// ---------------------------------------------------------------------------------------------
// CPU-time safety net (never a verdict about the property by itself: an unlisted monitor key that
// asks for triage).  Re-armed at every case.
inline void cpu_net_handler(int) {
    static const char msg[] = "@@FATAL cpu-safety-net | a case used more CPU time than the safety net allows without any device call exceeding the step budget\n";
    ssize_t r = write(1, msg, sizeof msg - 1); (void)r;
    _exit(97);
}
inline void arm_cpu_net(int seconds) {
    static bool installed = false;
    if (!installed) { installed = true; signal(SIGVTALRM, &cpu_net_handler); }
    struct itimerval it; memset(&it, 0, sizeof it);
    it.it_value.tv_sec = seconds;
    setitimer(ITIMER_VIRTUAL, &it, nullptr);
}

// ---------------------------------------------------------------------------------------------
// outcome of one reader call
enum outcome_class { OC_OK = 0, OC_IOS_FAILURE, OC_OTHER_EXCEPTION, OC_ALLOC_CAP, OC_BAD_ALLOC, OC_NON_STD };
inline const char* oc_name(int c) {
    static const char* n[] = { "ok", "ios_failure", "other-exception", "alloc-cap", "bad_alloc-below-cap", "non-std-exception" };
    return n[c];
}
struct outcome {
    int cls = OC_OK;
    std::string exc_type, what;
    long w = -1, h = -1;          // dimensions delivered
    uint64_t pix = 0;             // hash of the pixels delivered
    long rows = -1;               // scanline rows delivered
    std::string info;             // header fields as read_image_info reports them
    bool arena_dirty = false;     // bytes outside the destination view changed
    std::string arena_detail;
    devstats ops;
    uint64_t digest() const {
        uint64_t d = vh::mix(cls, vh::hash_str(exc_type));
        d = vh::mix(d, vh::hash_str(what));
        d = vh::mix(d, (uint64_t)w); d = vh::mix(d, (uint64_t)h); d = vh::mix(d, pix); d = vh::mix(d, (uint64_t)rows);
        d = vh::mix(d, vh::hash_str(info));
        d = vh::mix(d, ops.calls); d = vh::mix(d, ops.bytes_req); d = vh::mix(d, ops.bytes_ret);
        d = vh::mix(d, ops.zero_eof); d = vh::mix(d, ops.short_small); d = vh::mix(d, ops.seeks); d = vh::mix(d, ops.seeks_beyond); d = vh::mix(d, ops.is_ops); d = vh::mix(d, ops.f_ops);
        return d;
    }
    std::string str() const {
        std::ostringstream os;
        os << oc_name(cls);
        if (cls != OC_OK) os << "(" << exc_type << ": " << what.substr(0, 80) << ")";
        if (w >= 0) os << " " << w << "x" << h;
        if (rows >= 0) os << " rows=" << rows;
        if (cls == OC_OK) os << " pix=" << std::hex << pix << std::dec;
        if (!info.empty()) os << " info{" << info << "}";
        os << " ops{calls=" << ops.calls << " req=" << ops.bytes_req << " ret=" << ops.bytes_ret << " eof0=" << ops.zero_eof
           << " seeks=" << ops.seeks << " beyond=" << ops.seeks_beyond << " is=" << ops.is_ops << " f=" << ops.f_ops << "}";
        return os.str();
    }
};

// word-wise hash of raw bytes
inline uint64_t hash_raw(const void* p, size_t n, uint64_t h) {
    const unsigned char* c = (const unsigned char*)p;
    while (n >= 8) { uint64_t w; memcpy(&w, c, 8); h = (h ^ w) * 0x9E3779B97F4A7C15ull; h ^= h >> 29; c += 8; n -= 8; }
    uint64_t w = 0; if (n) memcpy(&w, c, n);
    h = (h ^ w ^ ((uint64_t)n << 56)) * 0x9E3779B97F4A7C15ull; h ^= h >> 32;
    return h;
}

// ---------------------------------------------------------------------------------------------
// arena: a destination view sits inside a larger block of seeded bytes; everything outside the
// view's pixels must be unchanged afterwards.
struct arena {
    std::vector<unsigned char> mem, pristine;
    size_t row_bytes = 0, pix_bytes = 0, stride = 0, lead = 0;
    long w = 0, h = 0;
    static const size_t PAD_ROWS = 2, PAD_X = 24, TAIL = 64;
    arena(long w_, long h_, size_t pixel_bytes, uint64_t seed) : w(w_), h(h_) {
        pix_bytes = pixel_bytes;
        row_bytes = (size_t)w * pixel_bytes;
        stride = row_bytes + 2 * PAD_X + 5;               // odd stride: rows are not aligned to anything
        lead = PAD_ROWS * stride + PAD_X;
        mem.resize(lead + (size_t)h * stride + PAD_ROWS * stride + TAIL);
        vh::rng r(seed);
        size_t i = 0;
        for (; i + 8 <= mem.size(); i += 8) { uint64_t v = r.next(); memcpy(&mem[i], &v, 8); }
        for (; i < mem.size(); ++i) mem[i] = (unsigned char)r.next();
        pristine = mem;
    }
    unsigned char* origin() { return mem.data() + lead; }
    // first difference outside the view's pixel bytes, or -1
    long outside_diff() const {
        size_t n = mem.size();
        for (size_t i = 0; i < n; ++i) {
            if (mem[i] == pristine[i]) continue;
            if (i >= lead) {
                size_t rel = i - lead, y = rel / stride, x = rel % stride;
                if ((long)y < h && x < row_bytes) continue;    // inside the view
            }
            return (long)i;
        }
        return -1;
    }
    std::string describe(long i) const {
        long rel = i - (long)lead;
        long y = rel >= 0 ? rel / (long)stride : -((-rel + (long)stride - 1) / (long)stride);
        long x = rel - y * (long)stride;
        return vh::cat("byte at row ", y, ", byte column ", x, " (view is ", w, "x", h, " pixels of ", pix_bytes, " bytes, rows ", row_bytes,
                       " bytes wide) changed from ", (int)pristine[i], " to ", (int)mem[i]);
    }
};

// ---------------------------------------------------------------------------------------------
// byte helpers for building and mutating files
inline void put_le(std::string& b, size_t off, unsigned width, uint64_t v) {
    for (unsigned i = 0; i < width; ++i) if (off + i < b.size()) b[off + i] = (char)((v >> (8 * i)) & 0xFF);
}
inline void put_be(std::string& b, size_t off, unsigned width, uint64_t v) {
    for (unsigned i = 0; i < width; ++i) if (off + i < b.size()) b[off + i] = (char)((v >> (8 * (width - 1 - i))) & 0xFF);
}
inline uint64_t get_le(std::string const& b, size_t off, unsigned width) {
    uint64_t v = 0;
    for (unsigned i = 0; i < width; ++i) if (off + i < b.size()) v |= (uint64_t)(unsigned char)b[off + i] << (8 * i);
    return v;
}
inline uint64_t get_be(std::string const& b, size_t off, unsigned width) {
    uint64_t v = 0;
    for (unsigned i = 0; i < width; ++i) { v <<= 8; if (off + i < b.size()) v |= (unsigned char)b[off + i]; }
    return v;
}
inline void app_le(std::string& b, unsigned width, uint64_t v) { for (unsigned i = 0; i < width; ++i) b.push_back((char)((v >> (8 * i)) & 0xFF)); }
inline void app_be(std::string& b, unsigned width, uint64_t v) { for (unsigned i = 0; i < width; ++i) b.push_back((char)((v >> (8 * (width - 1 - i))) & 0xFF)); }

// the boundary-value table of DESIGN section 5 / C11, reduced to a field of `width` bytes
inline std::vector<uint64_t> boundary_values(unsigned width) {
    static const uint64_t all[] = { 0, 1, 2, 7, 8, 9, 15, 16, 17, 24, 32, 33, 64, 127, 128, 255, 256, 0x7FFF, 0x8000, 0xFFFF,
                                    0x7FFFFFFFull, 0x80000000ull, 0xFFFFFFFFull };
    uint64_t mask = width >= 8 ? ~0ull : ((1ull << (8 * width)) - 1);
    std::vector<uint64_t> v;
    for (uint64_t x : all) {
        if (x > mask) continue;
        v.push_back(x);
    }
    if (width == 1) { /* 255 is already the all-ones value */ }
    if (width == 2) { /* 0xFFFF is in the table */ }
    return v;
}

struct field_t { const char* name; unsigned off; unsigned width; bool big_endian; };

// seeded multi-byte mutation: bit flips, byte sets, interesting 16/32-bit values, chunk delete /
// duplicate / insert, biased towards the header
inline std::string mutate_random(std::string b, vh::rng& r, size_t header_len) {
    static const uint32_t interesting[] = { 0, 1, 2, 3, 4, 7, 8, 15, 16, 24, 31, 32, 33, 64, 127, 128, 129, 255, 256, 257, 0x7FFF, 0x8000, 0xFFFF,
                                            0x10000, 0x7FFFFFFF, 0x80000000u, 0xFFFFFFFFu, 0xFFFFFFFEu };
    int n = 1 + (int)r.below(4);
    if (r.below(8) == 0) n += (int)r.below(12);
    for (int k = 0; k < n; ++k) {
        if (b.empty()) { b.push_back((char)r.next()); continue; }
        size_t pos = (r.below(3) != 0 && header_len) ? (size_t)r.below(header_len < b.size() ? header_len : b.size()) : (size_t)r.below(b.size());
        switch (r.below(9)) {
        case 0: b[pos] ^= (char)(1u << r.below(8)); break;
        case 1: b[pos] = (char)r.next(); break;
        case 2: b[pos] = (char)interesting[r.below(sizeof interesting / sizeof *interesting)]; break;
        case 3: { uint32_t v = interesting[r.below(sizeof interesting / sizeof *interesting)]; if (r.coin()) put_le(b, pos, 2, v); else put_be(b, pos, 2, v); break; }
        case 4: { uint32_t v = interesting[r.below(sizeof interesting / sizeof *interesting)]; if (r.coin()) put_le(b, pos, 4, v); else put_be(b, pos, 4, v); break; }
        case 5: { size_t len = 1 + (size_t)r.below(16); if (pos + len > b.size()) len = b.size() - pos; b.erase(pos, len); break; }
        case 6: { size_t len = 1 + (size_t)r.below(16); if (pos + len > b.size()) len = b.size() - pos; b.insert(pos, b.substr(pos, len)); break; }
        case 7: { size_t len = 1 + (size_t)r.below(8); std::string ins; for (size_t i = 0; i < len; ++i) ins.push_back((char)r.next()); b.insert(pos, ins); break; }
        case 8: { b[pos] = (char)(b[pos] + (r.coin() ? 1 : -1)); break; }
        }
    }
    if (r.below(10) == 0 && b.size() > 1) b.resize(1 + (size_t)r.below(b.size() - 1));    // ... and truncated
    return b;
}

// truncation lengths: every length for small seeds, every byte of the head and a stride beyond otherwise
inline std::vector<size_t> truncation_points(size_t len, size_t every_below, size_t head, size_t strided) {
    std::vector<size_t> v;
    if (len <= every_below || len <= head) { for (size_t i = 0; i < len; ++i) v.push_back(i); return v; }
    for (size_t i = 0; i < head && i < len; ++i) v.push_back(i);
    size_t rest = len - head;
    size_t n = strided < rest ? strided : rest;
    for (size_t k = 0; k < n; ++k) {
        size_t p = head + (size_t)(((unsigned __int128)rest * k) / n);
        // jitter so that not only multiples of the stride are hit; deterministic
        p += (k * 7919u) % (rest / n ? rest / n : 1);
        if (p >= len) p = len - 1;
        if (v.empty() || v.back() < p) v.push_back(p);
    }
    if (v.back() != len - 1) v.push_back(len - 1);
    return v;
}

inline bool slurp(std::string const& path, std::string& out) {
    FILE* f = fopen(path.c_str(), "rb");
    if (!f) return false;
    out.clear();
    char buf[65536]; size_t n;
    while ((n = fread(buf, 1, sizeof buf, f)) > 0) out.append(buf, n);
    fclose(f);
    return true;
}
inline std::string fixture_dir(const char* fmt) {
#ifndef VERIF_REPO_ROOT
#define VERIF_REPO_ROOT "/repo"
#endif
    const char* e = getenv("VERIF_REPO");
    std::string roots[3] = { e && *e ? e : VERIF_REPO_ROOT, VERIF_REPO_ROOT, "/repo" };
    for (auto& r : roots) {
        std::string d = r + "/test/extension/io/images/" + fmt;
        struct stat sb;
        if (stat(d.c_str(), &sb) == 0 && S_ISDIR(sb.st_mode)) return d;
    }
    return std::string("/repo/test/extension/io/images/") + fmt;
}

} // namespace c11
