// C12 (names) -- write_view through every way of naming the destination x every kind of argument.
// io/make_writer.hpp and make_dynamic_image_writer.hpp spell the overload set out once per name type
// (char const*, std::string, std::wstring, filesystem::path, FILE*, std::ostream&, TIFF*) and per argument
// (format tag, image_write_info); each copy has to pass the caller's info on.  For a static view and for an
// any_image_view, every name type must produce the bytes that the std::string name produces (TIFF through a
// std::ostream is laid out differently by libtiff: there the decoded image is compared), a non-default
// image_write_info must have its observable effect (jpeg quality, tiff compression, png gAMA chunk), and the
// file must read back as the view.  One TU per format (-DC12N_PART=0..5: bmp pnm targa png jpeg tiff).
#ifndef C12N_PART
#error "compile with -DC12N_PART=<k>"
#endif
#include <boost/gil.hpp>
#if C12N_PART == 0
#include <boost/gil/extension/io/bmp.hpp>
typedef boost::gil::bmp_tag tag_t; static const char* FMT = "bmp"; static const char* EXT = "bmp";
#elif C12N_PART == 1
#include <boost/gil/extension/io/pnm.hpp>
typedef boost::gil::pnm_tag tag_t; static const char* FMT = "pnm"; static const char* EXT = "pnm";
#elif C12N_PART == 2
#include <boost/gil/extension/io/targa.hpp>
typedef boost::gil::targa_tag tag_t; static const char* FMT = "targa"; static const char* EXT = "tga";
#elif C12N_PART == 3
#include <boost/gil/extension/io/png.hpp>
typedef boost::gil::png_tag tag_t; static const char* FMT = "png"; static const char* EXT = "png";
#define C12N_HAS_OPTION 1
#elif C12N_PART == 4
#include <boost/gil/extension/io/jpeg.hpp>
typedef boost::gil::jpeg_tag tag_t; static const char* FMT = "jpeg"; static const char* EXT = "jpg";
#define C12N_HAS_OPTION 1
#elif C12N_PART == 5
#include <boost/gil/extension/io/tiff.hpp>
typedef boost::gil::tiff_tag tag_t; static const char* FMT = "tiff"; static const char* EXT = "tif";
#define C12N_TIFF 1
#define C12N_HAS_OPTION 1
#endif
#include <algorithm>
#include <fstream>
#include "c12_io_common.hpp"

namespace gil = boost::gil;
using cio::membuf;
typedef gil::rgb8_image_t img_t;
typedef gil::any_image<gil::gray8_image_t, gil::rgb8_image_t> any_t;
typedef gil::image_write_info<tag_t> info_t;

enum { N_CSTR, N_STRING, N_WSTRING, N_PATH, N_FILEPTR, N_OSTREAM, N_TIFFPTR, N_COUNT };
static const char* name_kind(int n) { static const char* s[] = { "char-const-ptr", "std-string", "std-wstring", "filesystem-path", "FILEptr", "ostream", "TIFFptr" }; return s[n]; }
enum { A_TAG, A_DEFAULT, A_OPTION, A_COUNT };
static const char* arg_kind(int a) { static const char* s[] = { "tag", "default-info", "nondefault-info" }; return s[a]; }
enum { V_STATIC, V_ANY, V_COUNT };
static const char* view_kind(int v) { return v == V_STATIC ? "view" : "any_image_view"; }

template <int N> struct enabled {
#ifdef C12N_TIFF
    static const bool value = N != N_FILEPTR;          // no FILE* device for TIFF (C12 probe tiff.rgb8.FILEptr-sink)
#else
    static const bool value = N != N_TIFFPTR;
#endif
};

static info_t make_info(int a) {
    info_t i;
    if (a == A_OPTION) {
#if C12N_PART == 3
        // a gAMA chunk; the value's type is double or png_fixed_point depending on the libpng configuration
        typedef decltype(i._file_gamma) g_t;
        i._valid_file_gamma = true; i._file_gamma = std::is_floating_point<g_t>::value ? (g_t)0.45455 : (g_t)45455;
#elif C12N_PART == 4
        i._quality = 20;
#elif C12N_PART == 5
        i._compression = COMPRESSION_LZW;
#endif
    }
    return i;
}

// write `v` to the destination of kind N with argument kind A; returns the bytes that ended up there
template <class V, class Ar> static void do_write_name(std::string const& path, int n, V const& v, Ar const& a) {
    if (n == N_CSTR) { char const* c = path.c_str(); gil::write_view(c, v, a); }
    else if (n == N_STRING) { gil::write_view(path, v, a); }
    else if (n == N_WSTRING) { std::wstring w(path.begin(), path.end()); gil::write_view(w, v, a); }
    else { gil::detail::filesystem::path p(path); gil::write_view(p, v, a); }
}
template <class V, class Ar> static void write_fileptr(std::string const& path, V const& v, Ar const& a, std::true_type) {
    FILE* f = fopen(path.c_str(), "wb"); if (!f) vh::fatal_monitor("harness", "fopen " + path);
    gil::write_view(f, v, a);           // GIL closes it
}
template <class V, class Ar> static void write_fileptr(std::string const&, V const&, Ar const&, std::false_type) {}
template <class V, class Ar> static void write_tiffptr(std::string const& path, V const& v, Ar const& a, std::true_type) {
#ifdef C12N_TIFF
    TIFF* t = TIFFOpen(path.c_str(), "w"); if (!t) vh::fatal_monitor("harness", "TIFFOpen " + path);
    gil::write_view(t, v, a);           // GIL closes it
#endif
}
template <class V, class Ar> static void write_tiffptr(std::string const&, V const&, Ar const&, std::false_type) {}

template <class V, class Ar> static std::string bytes_via(int n, V const& v, Ar const& a) {
    if (n == N_OSTREAM) { std::stringstream ss(std::ios::in | std::ios::out | std::ios::binary); gil::write_view(ss, v, a); return ss.str(); }
    cio::scratch_file sf("c12n", EXT);
    if (n <= N_PATH) do_write_name(sf.path, n, v, a);
    else if (n == N_FILEPTR) write_fileptr(sf.path, v, a, std::integral_constant<bool, enabled<N_FILEPTR>::value>());
    else write_tiffptr(sf.path, v, a, std::integral_constant<bool, enabled<N_TIFFPTR>::value>());
    std::string out;
    if (!cio::slurp(sf.path, out)) return "(no file)";
    return out;
}
template <class V> static std::string bytes_arg(int n, int a, V const& v) {
    if (a == A_TAG) return bytes_via(n, v, tag_t());
    return bytes_via(n, v, make_info(a));
}
static std::string decode_digest(std::string const& bytes) {
    try { img_t B; std::istringstream in(bytes, std::ios::in | std::ios::binary); std::istream& is = in; gil::read_image(is, B, tag_t());
          return vh::cat(B.width(), "x", B.height(), ":", cio::hash_view(gil::const_view(B))); }
    catch (std::exception const& e) { return std::string("exception: ") + e.what(); }
}
// What the format defines as the file: for JPEG everything up to and including the end-of-image marker (in
// entropy-coded data 0xFF is always followed by 0x00 or a restart marker, so the first FF D9 after the
// start-of-scan marker is EOI).  Bytes after it are no part of the image and are judged separately.
static std::string payload(std::string const& b) {
#if C12N_PART == 4
    size_t sos = b.find("\xFF\xDA");
    if (sos == std::string::npos) return b;
    size_t eoi = b.find("\xFF\xD9", sos);
    if (eoi == std::string::npos) return b;
    return b.substr(0, eoi + 2);
#else
    return b;
#endif
}
static bool is_enabled(int n) {
    switch (n) { case N_FILEPTR: return enabled<N_FILEPTR>::value; case N_TIFFPTR: return enabled<N_TIFFPTR>::value; default: return true; }
}

int main(int argc, char** argv) {
    vh::init(argc, argv);
    cio::install_cleanup();
    const int sizes[][2] = { { 13, 9 }, { 120, 90 }, { 1, 1 } };
    int k = 0;
    for (auto& sz : sizes) {
        img_t src(sz[0], sz[1]); cio::fill_view(gil::view(src), vh::mix(vh::seed(), 777 + k++), 0);
        any_t anyimg(src);
        std::string fname = vh::cat("rgb8-", sz[0], "x", sz[1]);
        std::string want_digest = vh::cat(src.width(), "x", src.height(), ":", cio::hash_view(gil::const_view(src)));
        for (int vk = 0; vk < V_COUNT; ++vk)
        for (int a = 0; a < A_COUNT; ++a)
        for (int n = 0; n < N_COUNT; ++n) {
            if (!is_enabled(n)) continue;
            std::string key = vh::cat(FMT, ".", name_kind(n), ".", arg_kind(a), ".", view_kind(vk));
            if (!vh::begin_case(vh::cat("names.", FMT, ".", name_kind(n), ".", arg_kind(a), ".", view_kind(vk)), fname)) continue;
            vh::evals(1); vh::distinct(1);
            std::string ref, dflt, got;
            try {
                // reference: the std::string name with the same argument; default: the tag
                if (vk == V_STATIC) { ref = bytes_arg(N_STRING, a, gil::const_view(src)); dflt = bytes_arg(N_STRING, A_TAG, gil::const_view(src)); got = bytes_arg(n, a, gil::const_view(src)); }
                else { ref = bytes_arg(N_STRING, a, gil::const_view(anyimg)); dflt = bytes_arg(N_STRING, A_TAG, gil::const_view(anyimg)); got = bytes_arg(n, a, gil::const_view(anyimg)); }
            } catch (std::exception const& e) { vh::viol("names-exception." + key, vh::cat(fname, ": ", e.what())); continue; }
#ifdef C12N_HAS_OPTION
            // the reference itself must show the argument's effect
            if (a == A_OPTION && ref == dflt) vh::viol("names-reference." + key, vh::cat(fname, ": a non-default image_write_info through a std::string name gives the bytes of the default (", ref.size(), " bytes)"));
#endif
            // nothing may follow the image, least of all bytes that differ from write to write
            if (n == N_STRING && payload(ref).size() != ref.size()) {
                std::string again = vk == V_STATIC ? bytes_arg(N_STRING, a, gil::const_view(src)) : bytes_arg(N_STRING, a, gil::const_view(anyimg));
                vh::viol(vh::cat("names-trailing-bytes.", FMT), vh::cat(fname, " ", arg_kind(a), ": the file has ", ref.size(), " bytes, the image ends at ", payload(ref).size(),
                                                                      "; two writes of the same view give ", again == ref ? "the same" : "different", " trailing bytes"));
            }
            ref = payload(ref); dflt = payload(dflt); got = payload(got);
            if (a != A_OPTION && ref != dflt) vh::viol("names-reference." + key, vh::cat(fname, ": default info and format tag give different files (", ref.size(), " vs ", dflt.size(), " bytes)"));
            bool bytes_comparable = true;
#ifdef C12N_TIFF
            if (n == N_OSTREAM) bytes_comparable = false;      // libtiff lays stream output out differently
#endif
            if (bytes_comparable && got != ref) {
                size_t at = 0; while (at < got.size() && at < ref.size() && got[at] == ref[at]) ++at;
                vh::viol("names-bytes." + key, vh::cat(fname, ": ", got.size(), " bytes, ", ref.size(), " bytes through a std::string name with the same argument; first difference at offset ", at));
            }
            if (!bytes_comparable) {
                // the same compression must have been applied: compare the sizes of the pixel data roughly and the decoded image exactly
                bool lz = got.size() != 0 && ref.size() != 0 && (double)got.size() / (double)ref.size() > 0.5 && (double)got.size() / (double)ref.size() < 2.0;
                if (!lz) vh::viol("names-bytes." + key, vh::cat(fname, ": ", got.size(), " bytes through the stream, ", ref.size(), " through a std::string name"));
            }
            // the lossless formats read back as the view; JPEG as whatever the reference decodes to
            std::string dg = decode_digest(got);
#if C12N_PART == 4
            if (dg != decode_digest(ref)) vh::viol("names-decoded." + key, vh::cat(fname, ": decodes to [", dg, "], the reference file to [", decode_digest(ref), "]"));
#else
            if (dg != want_digest) vh::viol("names-decoded." + key, vh::cat(fname, ": decodes to [", dg, "], the view is [", want_digest, "]"));
#endif
            vh::obs(vh::cat("names.", name_kind(n)));
            vh::obs(vh::cat("names.arg.", arg_kind(a)));
            vh::obs(vh::cat("names.", view_kind(vk)));
        }
    }
    return vh::finish();
}
