// c11_libformats.hpp -- the PNG / JPEG / TIFF parts of the C11 monitor (GIL's glue around the system
// libraries: read callbacks, setjmp/longjmp error trampolines, row buffers, is_allowed tables).
// Included by c11_io_fuzz.cpp for C11_FMT >= 3; uses its engine (seed_t, mut_case, add_seed ...).
#pragma once

// chunk / marker / IFD walkers of the harness's own ---------------------------------------------------

#if C11_FMT == 3   // ---------------------------------------------------------------------------- PNG
struct png_chunk { size_t off; uint32_t len; char type[5]; };
static std::vector<png_chunk> png_chunks(std::string const& b) {
    std::vector<png_chunk> v;
    size_t p = 8;
    while (p + 12 <= b.size()) {
        png_chunk c; c.off = p; c.len = (uint32_t)c11::get_be(b, p, 4); memcpy(c.type, b.data() + p + 4, 4); c.type[4] = 0;
        v.push_back(c);
        if ((uint64_t)p + 12 + c.len > b.size()) break;
        p += 12 + c.len;
    }
    return v;
}
// recompute the CRC of every chunk that lies completely inside the bytes (so that a mutated field is
// not simply rejected by the CRC check)
static std::string png_fix_crcs(std::string b) {
    for (auto const& c : png_chunks(b)) {
        if ((uint64_t)c.off + 12 + c.len > b.size()) break;
        uint32_t crc = (uint32_t)crc32(0L, (const Bytef*)b.data() + c.off + 4, 4 + c.len);
        c11::put_be(b, c.off + 8 + c.len, 4, crc);
    }
    return b;
}
struct F_png {
    typedef gil::png_tag tag;
    static const char* name() { return "png"; }
    static const char* ext() { return "png"; }
    static const bool has_FILE = true;
    static const bool subrect = true;
    static const bool lib_codec = true;
    static const bool strict_field_reads = false;
    static const bool has_info_all = true;
    static size_t fixed_header_len(std::string const&) { return 0; }
    // read_image_info with every optional read_* switch on: the ancillary-chunk getters of the backend
    template <class Src> static void info_all(Src& s, outcome& o) {
        gil::image_read_settings<tag> st; st.set_read_members_true();
        auto be = gil::read_image_info(s, st);
        o.info = info_str(be._info) + " | " + backend_common(be);
    }
    template <class Backend> static std::string backend_extra(Backend const&) { return std::string(); }
    typedef std::tuple<gil::gray8_image_t, gil::rgb8_image_t, gil::rgba8_image_t, gil::gray16_image_t, gil::rgb16_image_t> natives;
    typedef std::tuple<gil::rgba8_image_t, gil::gray16_image_t> conv_targets;
    typedef gil::any_image<gil::gray8_image_t, gil::rgb8_image_t, gil::rgba8_image_t, gil::rgb16_image_t> any_t;
    static std::string info_str(gil::image_read_info<tag> const& i) {
        dumper d;
        d.f("w", i._width).f("h", i._height).f("bd", i._bit_depth).f("ct", i._color_type).f("il", i._interlace_method).f("cm", i._compression_method)
         .f("fm", i._filter_method).f("nch", i._num_channels)
         .f("vcie", i._valid_cie_colors).f("wx", i._white_x).f("wy", i._white_y).f("rx", i._red_x).f("ry", i._red_y).f("gx", i._green_x).f("gy", i._green_y)
         .f("bx", i._blue_x).f("by", i._blue_y).f("vgam", i._valid_file_gamma).f("gam", i._file_gamma)
         .f("vicc", i._valid_icc_profile).f("iccn", i._icc_name).f("iccc", i._iccp_compression_type).f("iccp", i._profile).f("iccl", i._profile_length)
         .f("vint", i._valid_intent).f("int", i._intent).f("vpal", i._valid_palette).f("pal", i._palette).f("npal", i._num_palette)
         .f("vbg", i._valid_background)
         .f("bgi", i._background.index).f("bgr", i._background.red).f("bgg", i._background.green).f("bgb", i._background.blue).f("bgy", i._background.gray)
         .f("vhist", i._valid_histogram).f("hist", i._histogram).f("voff", i._valid_offset).f("ox", i._offset_x).f("oy", i._offset_y).f("ou", i._off_unit_type)
         .f("vcal", i._valid_pixel_calibration).f("purp", i._purpose).f("X0", i._X0).f("X1", i._X1).f("calt", i._cal_type).f("caln", i._num_params)
         .f("units", i._units).f("params", i._params)
         .f("vres", i._valid_resolution).f("resx", i._res_x).f("resy", i._res_y).f("resu", i._phy_unit_type).f("ppm", i._pixels_per_meter)
         .f("vsig", i._valid_significant_bits).f("sbr", i._sig_bits.red).f("sbg", i._sig_bits.green).f("sbb", i._sig_bits.blue).f("sby", i._sig_bits.gray).f("sba", i._sig_bits.alpha)
         .f("vscal", i._valid_scale_factors).f("scu", i._scale_unit).f("scw", i._scale_width).f("sch", i._scale_height)
         .f("vtext", i._valid_text).f("ntext", i._num_text).f("textn", (uint64_t)i._text.size());
        for (auto const& t : i._text) d.f("tc", t._compression).f("tk", t._key).f("tt", t._text);
        d.f("vmod", i._valid_modification_time).f("my", i._mod_time.year).f("mm", i._mod_time.month).f("md", i._mod_time.day).f("mh", i._mod_time.hour)
         .f("mi", i._mod_time.minute).f("ms", i._mod_time.second)
         .f("vtr", i._valid_transparency_factors).f("tr", i._trans).f("ntr", i._num_trans).f("trvn", (uint64_t)i._trans_values.size());
        for (auto const& c : i._trans_values) d.f("ti", c.index).f("tr", c.red).f("tg", c.green).f("tb", c.blue).f("ty", c.gray);
        return d.str();
    }
    static bool parse_dims(std::string const& b, long& w, long& h, uint64_t& extra) {
        extra = 0;
        if (b.size() < 24) return false;
        uint64_t ww = c11::get_be(b, 16, 4), hh = c11::get_be(b, 20, 4);
        if (ww > 0x7FFFFFFF || hh > 0x7FFFFFFF) return false;
        w = (long)ww; h = (long)hh;
        return true;
    }
    static uint64_t declared_slack(std::string const&) { return 4096; }      // Adam7 passes, ancillary chunks
    static size_t header_len(seed_t const&) { return 60; }
    static std::string fixup(std::string const& b) { return png_fix_crcs(b); }
    static std::vector<enum_field_t> enum_fields(seed_t const&) {
        return { { { "bit_depth", 24, 1, true }, vrange(0, 17, { 32 }) }, { { "color_type", 25, 1, true }, vrange(0, 8) }, { { "compression", 26, 1, true }, vrange(0, 2) },
                 { { "filter", 27, 1, true }, vrange(0, 2, { 64 }) }, { { "interlace", 28, 1, true }, vrange(0, 3) } };
    }
    static std::vector<c11::field_t> fields(seed_t const& s) {
        std::vector<c11::field_t> f = { { "sig_byte0", 0, 1, true }, { "ihdr_len", 8, 4, true }, { "ihdr_type", 12, 4, true }, { "width", 16, 4, true }, { "height", 20, 4, true },
                                        { "bit_depth", 24, 1, true }, { "color_type", 25, 1, true }, { "compression", 26, 1, true }, { "filter", 27, 1, true },
                                        { "interlace", 28, 1, true }, { "ihdr_crc", 29, 4, true } };
        bool idat = false, plte = false, trns = false;
        for (auto const& c : png_chunks(s.bytes)) {
            if (!strcmp(c.type, "IDAT") && !idat) { idat = true; f.push_back({ "idat_len", (unsigned)c.off, 4, true }); f.push_back({ "idat_zlib_hdr", (unsigned)c.off + 8, 2, true }); }
            if (!strcmp(c.type, "PLTE") && !plte) { plte = true; f.push_back({ "plte_len", (unsigned)c.off, 4, true }); }
            if (!strcmp(c.type, "tRNS") && !trns) { trns = true; f.push_back({ "trns_len", (unsigned)c.off, 4, true }); }
            if (!strcmp(c.type, "IEND")) f.push_back({ "iend_len", (unsigned)c.off, 4, true });
        }
        return f;
    }
};
typedef F_png F;
static void format_setup() {}

// a PNG writer of the harness's own for variants GIL's writer does not produce (palette, tRNS, interlace, sub-byte depths)
static std::string png_chunk_bytes(const char* type, std::string const& data) {
    std::string c; c11::app_be(c, 4, data.size()); c += std::string(type, 4) + data;
    uint32_t crc = (uint32_t)crc32(0L, (const Bytef*)c.data() + 4, 4 + data.size());
    c11::app_be(c, 4, crc);
    return c;
}
static std::string png_build(int w, int h, int bit_depth, int color_type, int palette_entries, int trns_entries, uint64_t seed, std::string const& raw_override = std::string()) {
    int channels = color_type == 0 ? 1 : color_type == 2 ? 3 : color_type == 3 ? 1 : color_type == 4 ? 2 : 4;
    size_t rowbytes = ((size_t)w * channels * bit_depth + 7) / 8;
    std::string raw;
    vh::rng r(vh::mix(seed, 0x9A6));
    for (int y = 0; y < h; ++y) {
        raw.push_back((char)(y % 5 == 4 ? 0 : y % 5));       // filter type 0..4
        for (size_t i = 0; i < rowbytes; ++i) {
            unsigned v = (unsigned)r.next() & 0xFF;
            if (color_type == 3 && bit_depth == 8 && palette_entries > 0) v %= (unsigned)palette_entries;
            raw.push_back((char)v);
        }
    }
    if (!raw_override.empty()) raw = raw_override;
    uLongf zl = compressBound(raw.size());
    std::string z(zl, '\0');
    compress2((Bytef*)&z[0], &zl, (const Bytef*)raw.data(), raw.size(), 6);
    z.resize(zl);
    std::string b = "\x89PNG\r\n\x1a\n";
    std::string ihdr; c11::app_be(ihdr, 4, w); c11::app_be(ihdr, 4, h); ihdr.push_back((char)bit_depth); ihdr.push_back((char)color_type); ihdr.push_back(0); ihdr.push_back(0); ihdr.push_back(0);
    b += png_chunk_bytes("IHDR", ihdr);
    if (palette_entries > 0) { std::string p; for (int i = 0; i < palette_entries * 3; ++i) p.push_back((char)r.next()); b += png_chunk_bytes("PLTE", p); }
    if (trns_entries > 0) { std::string t; for (int i = 0; i < trns_entries; ++i) t.push_back((char)r.next()); b += png_chunk_bytes("tRNS", t); }
    b += png_chunk_bytes("IDAT", z);
    b += png_chunk_bytes("IEND", "");
    return b;
}
static std::vector<seed_t> g_seeds;
static std::string png_insert_after_ihdr(std::string const& b, std::string const& chunk);
static std::string png_text_chunk(bool compressed, size_t len, uint64_t seed);
static void build_seeds() {
    auto& v = g_seeds;
    add_seed(v, "c-gray8-7x5", "gray8", png_build(7, 5, 8, 0, 0, 0, 1), 0, true);
    add_seed(v, "c-gray1-9x4", "gray1", png_build(9, 4, 1, 0, 0, 0, 2), 0, false);
    add_seed(v, "c-gray4-7x3", "gray4", png_build(7, 3, 4, 0, 0, 0, 3), 0, false);
    add_seed(v, "c-gray16-5x3", "gray16", png_build(5, 3, 16, 0, 0, 0, 4), 3, true);
    add_seed(v, "c-rgb8-5x4", "rgb8", png_build(5, 4, 8, 2, 0, 0, 5), 1, true);
    add_seed(v, "c-rgb16-3x3", "rgb16", png_build(3, 3, 16, 2, 0, 0, 6), 4, false);
    add_seed(v, "c-pal8-6x4-16col", "pal8", png_build(6, 4, 8, 3, 16, 0, 7), 1, true);
    add_seed(v, "c-pal4-7x3-trns", "pal4-trns", png_build(7, 3, 4, 3, 16, 5, 8), 2, true);
    add_seed(v, "c-pal1-9x3", "pal1", png_build(9, 3, 1, 3, 2, 0, 9), 1, false);
    add_seed(v, "c-graya8-4x3", "gray-alpha8", png_build(4, 3, 8, 4, 0, 0, 10), 2, false);
    add_seed(v, "c-rgba8-4x3", "rgba8", png_build(4, 3, 8, 6, 0, 0, 11), 2, true);
    add_seed(v, "c-rgba16-2x2", "rgba16", png_build(2, 2, 16, 6, 0, 0, 12), 2, false);
    add_seed(v, "c-rgb8-1x1", "rgb8", png_build(1, 1, 8, 2, 0, 0, 13), 1, false);
    { std::string b = png_build(5, 4, 8, 2, 0, 0, 14); b[28] = 1; add_seed(v, "c-rgb8-5x4-adam7-flag", "rgb8-interlaced", png_fix_crcs(b), 1, false); }
    gil::image_write_info<gil::png_tag> wi;
    add_seed(v, "w-gray8-9x7", "gray8", written(gil::const_view(seeded_image<gil::gray8_image_t>(9, 7, 21)), wi), 0, false);
    add_seed(v, "w-gray16-5x3", "gray16", written(gil::const_view(seeded_image<gil::gray16_image_t>(5, 3, 22)), wi), 3, false);
    add_seed(v, "w-rgb8-9x7", "rgb8", written(gil::const_view(seeded_image<gil::rgb8_image_t>(9, 7, 23)), wi), 1, false);
    add_seed(v, "w-rgba8-5x4", "rgba8", written(gil::const_view(seeded_image<gil::rgba8_image_t>(5, 4, 24)), wi), 2, false);
    add_seed(v, "w-rgb16-4x3", "rgb16", written(gil::const_view(seeded_image<gil::rgb16_image_t>(4, 3, 25)), wi), 4, false);
    add_seed(v, "w-rgba16-3x2", "rgba16", written(gil::const_view(seeded_image<gil::rgba16_image_t>(3, 2, 26)), wi), 2, false);
    // every ancillary chunk the backend has a getter for (GIL's writer emits none of them): gAMA cHRM sBIT sRGB pHYs oFFs bKGD tIME tEXt,
    // and PLTE + hIST + tRNS + bKGD for a palette image -- small enough for truncation at every byte (entry info-all reads them)
    { std::string b = png_build(5, 4, 8, 2, 0, 0, 15), anc;
      std::string gama; c11::app_be(gama, 4, 45455); anc += png_chunk_bytes("gAMA", gama);
      std::string chrm; for (uint32_t x : { 31270u, 32900u, 64000u, 33000u, 30000u, 60000u, 15000u, 6000u }) c11::app_be(chrm, 4, x); anc += png_chunk_bytes("cHRM", chrm);
      anc += png_chunk_bytes("sBIT", std::string("\x05\x06\x05", 3));
      anc += png_chunk_bytes("sRGB", std::string("\x01", 1));
      std::string phys; c11::app_be(phys, 4, 2835); c11::app_be(phys, 4, 2836); phys.push_back(1); anc += png_chunk_bytes("pHYs", phys);
      std::string offs; c11::app_be(offs, 4, 7); c11::app_be(offs, 4, 0xFFFFFFF9u); offs.push_back(0); anc += png_chunk_bytes("oFFs", offs);
      std::string bkgd; c11::app_be(bkgd, 2, 10); c11::app_be(bkgd, 2, 20); c11::app_be(bkgd, 2, 30); anc += png_chunk_bytes("bKGD", bkgd);
      std::string time; c11::app_be(time, 2, 2024); time += std::string("\x02\x1d\x17\x3b\x3c", 5); anc += png_chunk_bytes("tIME", time);
      anc += png_chunk_bytes("tEXt", std::string("Title") + '\0' + "c11");
      std::string pcal = std::string("cal") + '\0'; c11::app_be(pcal, 4, 0); c11::app_be(pcal, 4, 255); pcal.push_back(0); pcal.push_back(2); pcal += std::string("mm") + '\0' + "0" + '\0' + "1";
      anc += png_chunk_bytes("pCAL", pcal);
      anc += png_chunk_bytes("sCAL", std::string("\x01", 1) + "1.5" + '\0' + "2.5");
      add_seed(v, "c-rgb8-5x4+ancillary", "rgb8-ancillary", png_insert_after_ihdr(b, anc), 1, false); }
    { std::string b = png_build(6, 4, 8, 3, 8, 0, 16); std::vector<png_chunk> ch = png_chunks(b);
      size_t after_plte = ch[1].off + 12 + ch[1].len;
      std::string anc; std::string hist; for (int i = 0; i < 8; ++i) c11::app_be(hist, 2, 100 * i); anc += png_chunk_bytes("hIST", hist);
      anc += png_chunk_bytes("tRNS", std::string("\x00\x40\x80\xff", 4));
      anc += png_chunk_bytes("bKGD", std::string("\x03", 1));
      add_seed(v, "c-pal8-6x4+hIST-tRNS-bKGD", "pal8-ancillary", b.substr(0, after_plte) + anc + b.substr(after_plte), 2, false, true); }
    add_seed(v, "c-rgb8-5x4+tEXt20000", "rgb8-longtext", png_insert_after_ihdr(png_build(5, 4, 8, 2, 0, 0, 5), png_text_chunk(false, 20000, 601)), 1, false);
    add_seed(v, "c-rgb8-5x4+zTXt20000", "rgb8-longtext", png_insert_after_ihdr(png_build(5, 4, 8, 2, 0, 0, 5), png_text_chunk(true, 20000, 602)), 1, false);
    struct { const char* f; const char* variant; int kind; bool rep; } fx[] = {
        { "PngSuite/tbbn0g04.png", "gray4-trns", 0, false }, { "PngSuite/tbbn2c16.png", "rgb16-trns", 4, true }, { "PngSuite/tbbn3p08.png", "pal8-trns", 2, true },
        { "PngSuite/tbrn2c08.png", "rgb8-trns", 1, false }, { "PngSuite/tbwn0g16.png", "gray16-trns", 3, false }, { "PngSuite/tm3n3p02.png", "pal2-trns", 2, false },
        { "PngSuite/tp1n3p08.png", "pal8", 1, false }, { "EddDawson/36dpi.png", "rgb8-phys", 1, false }, { "grayscale-with-tRNS-chunk.png", "gray-trns", 0, false } };
    for (auto& x : fx) add_fixture(v, "png", x.f, x.variant, x.kind, x.rep);
}
static std::string png_insert_after_ihdr(std::string const& b, std::string const& chunk) { return b.substr(0, 33) + chunk + b.substr(33); }
static std::string png_text_chunk(bool compressed, size_t len, uint64_t seed) {
    vh::rng r(vh::mix(seed, 0x7E7));
    std::string text; for (size_t i = 0; i < len; ++i) text.push_back((char)(32 + r.below(95)));
    if (!compressed) return png_chunk_bytes("tEXt", std::string("Comment") + '\0' + text);
    uLongf zl = compressBound(text.size()); std::string z(zl, '\0');
    compress2((Bytef*)&z[0], &zl, (const Bytef*)text.data(), text.size(), 1); z.resize(zl);
    return png_chunk_bytes("zTXt", std::string("Comment") + '\0' + '\0' + z);
}
static void long_chunks() {
    std::string base = png_build(5, 4, 8, 2, 0, 0, 5);       // == the seed c-rgb8-5x4
    for (int z = 0; z < 2; ++z) for (size_t len : { (size_t)100, (size_t)20000, (size_t)70000 })
        MUTEQ(gil::rgba8_image_t, "long-chunk", vh::cat("rgb8+", z ? "zTXt" : "tEXt", "-", len), base, [&] { return png_insert_after_ihdr(base, png_text_chunk(z, len, 600 + len)); });
    MUTEQ(gil::rgba8_image_t, "long-chunk", "rgb8+private-chunk-30000", base, [&] { return png_insert_after_ihdr(base, png_chunk_bytes("prVt", std::string(30000, 'p'))); });
    MUTEQ(gil::rgba8_image_t, "long-chunk", "rgb8+tEXt-20000-after-IDAT", base, [&] {
        std::string b = base; size_t at = b.size() - 12; return b.substr(0, at) + png_text_chunk(false, 20000, 640) + b.substr(at);
    });
    // length field of the long chunk against the data (CRCs re-computed and not)
    std::string withtext = png_insert_after_ihdr(base, png_text_chunk(false, 20000, 650));
    for (uint64_t v : { 0ull, 1ull, 7ull, 8ull, 19999ull, 20007ull, 20009ull, 40000ull, 1000000ull, 0x80000000ull, 0xFFFFFFFFull }) for (int fix = 0; fix < 2; ++fix)   // (not 0x7FFFFFFF: the system libpng has no chunk malloc limit and memsets 2 GiB per call)
        MUT("long-chunk-length", vh::cat("tEXt20000:len=", v, fix ? "-crcfixed" : ""), false, true, [&] { std::string b = withtext; c11::put_be(b, 33, 4, v); return fix ? png_fix_crcs(b) : b; });
    for (size_t c : { (size_t)33, (size_t)37, (size_t)41, (size_t)49, (size_t)4096, (size_t)8192, (size_t)20048, (size_t)20049, (size_t)20052, (size_t)20053, (size_t)20057, (size_t)20061 })
        if (c < withtext.size()) MUT("long-chunk-truncate", vh::cat("tEXt20000@", c), true, true, [&] { return withtext.substr(0, c); });
}
static void targeted() {
    long_chunks();
    // every (bit depth, colour type) combination, legal or not
    for (int ct : { 0, 1, 2, 3, 4, 5, 6, 7, 255 }) for (int bd : { 0, 1, 2, 3, 4, 8, 16, 32, 255 })
        MUT("depth-vs-type", vh::cat("ct", ct, "-bd", bd), false, true, [&] {
            std::string b = png_build(6, 4, 8, 2, 0, 0, 100); b[24] = (char)bd; b[25] = (char)ct; return png_fix_crcs(b);
        });
    // palette shorter than the indices / missing / oversized; tRNS longer than the palette
    struct { const char* id; int bd, pal, trns; } pc[] = { { "pal8-1entry", 8, 1, 0 }, { "pal8-none", 8, 0, 0 }, { "pal4-3entries", 4, 3, 0 }, { "pal1-1entry", 1, 1, 0 },
                                                           { "pal8-256", 8, 256, 0 }, { "pal2-16entries", 2, 16, 0 }, { "pal8-trns-longer", 8, 4, 40 }, { "pal4-trns-256", 4, 16, 256 } };
    for (auto const& c : pc)
        MUT("palette", c.id, false, true, [&] {
            std::string b = png_build(8, 3, c.bd, 3, c.pal == 256 ? 256 : c.pal, c.trns, 110);
            return b;
        });
    MUT("palette", "plte-len-not-multiple-of-3", false, true, [&] {
        std::string b = png_build(8, 3, 8, 3, 4, 0, 111);
        for (auto const& c : png_chunks(b)) if (!strcmp(c.type, "PLTE")) { std::string n = b.substr(0, c.off) + png_chunk_bytes("PLTE", std::string(10, 'x')) + b.substr(c.off + 12 + c.len); return n; }
        return b;
    });
    // image data shorter / longer than the header declares; bad filter bytes
    struct { const char* id; int w, h; int raw_rows; int filter; } dc[] = { { "idat-too-short", 6, 8, 2, -1 }, { "idat-too-long", 6, 2, 9, -1 }, { "idat-empty", 6, 4, 0, -1 },
                                                                             { "filter-5", 6, 4, 4, 5 }, { "filter-255", 6, 4, 4, 255 } };
    for (auto const& c : dc) for (int ct : { 0, 2, 6 })
        MUT("idat-vs-header", vh::cat(c.id, "-ct", ct), false, true, [&] {
            int ch = ct == 0 ? 1 : ct == 2 ? 3 : 4;
            std::string raw; vh::rng r(120);
            for (int y = 0; y < c.raw_rows; ++y) { raw.push_back((char)(c.filter >= 0 ? c.filter : 0)); for (int i = 0; i < c.w * ch; ++i) raw.push_back((char)r.next()); }
            if (raw.empty()) raw = std::string(1, '\0');
            std::string b = png_build(c.w, c.h, 8, ct, 0, 0, 121, raw);
            return b;
        });
    // dimensions
    struct { const char* id; uint32_t w, h; } dm[] = { { "w0", 0, 4 }, { "h0", 4, 0 }, { "w-2^31-1", 0x7FFFFFFF, 1 }, { "h-2^31-1", 1, 0x7FFFFFFF }, { "w-2^31", 0x80000000u, 1 },
                                                       { "65536x65536", 65536, 65536 }, { "1000000x1", 1000000, 1 }, { "1x1000000", 1, 1000000 }, { "30000x30000", 30000, 30000 } };
    for (auto const& c : dm) for (int il = 0; il < 2; ++il)
        MUT("dimension", vh::cat(c.id, il ? "-adam7" : ""), false, true, [&] {
            std::string b = png_build(4, 4, 8, 2, 0, 0, 130); c11::put_be(b, 16, 4, c.w); c11::put_be(b, 20, 4, c.h); b[28] = (char)il; return png_fix_crcs(b);
        });
    // chunk order / duplicates / unknown critical chunk / missing IEND / zlib stream cut
    for (int k = 0; k < 8; ++k)
        MUT("chunk-structure", vh::cat("variant", k), false, true, [&] {
            std::string b = png_build(5, 4, 8, 3, 8, 3, 140);
            std::vector<png_chunk> ch = png_chunks(b);
            auto bytes_of = [&](png_chunk const& c) { return b.substr(c.off, 12 + c.len); };
            std::string sig = b.substr(0, 8), ihdr = bytes_of(ch[0]), plte = bytes_of(ch[1]), trns = bytes_of(ch[2]), idat = bytes_of(ch[3]), iend = bytes_of(ch[4]);
            switch (k) {
            case 0: return sig + plte + ihdr + trns + idat + iend;
            case 1: return sig + ihdr + ihdr + plte + trns + idat + iend;
            case 2: return sig + ihdr + trns + plte + idat + iend;
            case 3: return sig + ihdr + plte + trns + idat;
            case 4: return sig + ihdr + plte + trns + png_chunk_bytes("XXXX", "critical") + idat + iend;
            case 5: return sig + ihdr + plte + trns + idat + idat + iend;
            case 6: return sig + ihdr + plte + trns + iend;
            default: return sig + ihdr + plte + plte + trns + trns + idat + iend;
            }
        });
    const char* junk[] = { "", "\x89", "\x89PNG", "\x89PNG\r\n\x1a\n", "BM....", "\xff\xd8\xff" };
    for (int k = 0; k < 6; ++k) MUT("not-png", vh::cat("junk", k), false, true, [&] { return std::string(junk[k]); });
}
#endif

#if C11_FMT == 4   // ---------------------------------------------------------------------------- JPEG
struct jpeg_seg { size_t off; int marker; unsigned len; };
static std::vector<jpeg_seg> jpeg_segments(std::string const& b) {
    std::vector<jpeg_seg> v;
    size_t p = 2;
    while (p + 4 <= b.size()) {
        if ((unsigned char)b[p] != 0xFF) break;
        jpeg_seg s; s.off = p; s.marker = (unsigned char)b[p + 1]; s.len = (unsigned)c11::get_be(b, p + 2, 2);
        v.push_back(s);
        if (s.marker == 0xDA) break;       // entropy-coded data follows
        p += 2 + s.len;
    }
    return v;
}
struct F_jpeg {
    typedef gil::jpeg_tag tag;
    static const char* name() { return "jpeg"; }
    static const char* ext() { return "jpg"; }
    static const bool has_FILE = true;
    static const bool subrect = true;
    static const bool lib_codec = true;
    static const bool strict_field_reads = false;
    static const bool has_info_all = false;
    static size_t fixed_header_len(std::string const&) { return 0; }
    template <class Src> static void info_all(Src&, outcome&) {}
    template <class Backend> static std::string backend_extra(Backend const&) { return std::string(); }
    typedef std::tuple<gil::gray8_image_t, gil::rgb8_image_t, gil::cmyk8_image_t> natives;
    typedef std::tuple<gil::rgb8_image_t, gil::gray8_image_t> conv_targets;
    typedef gil::any_image<gil::gray8_image_t, gil::rgb8_image_t, gil::cmyk8_image_t> any_t;
    static std::string info_str(gil::image_read_info<tag> const& i) {
        dumper d;
        d.f("w", i._width).f("h", i._height).f("nc", i._num_components).f("cs", (int)i._color_space).f("prec", i._data_precision).f("du", i._density_unit)
         .f("xd", i._x_density).f("yd", i._y_density).f("pwmm", i._pixel_width_mm).f("phmm", i._pixel_height_mm);
        return d.str();
    }
    static bool parse_dims(std::string const& b, long& w, long& h, uint64_t& extra) {
        extra = 0;
        for (auto const& s : jpeg_segments(b))
            if (s.marker >= 0xC0 && s.marker <= 0xCF && s.marker != 0xC4 && s.marker != 0xC8 && s.marker != 0xCC) {
                h = (long)c11::get_be(b, s.off + 5, 2); w = (long)c11::get_be(b, s.off + 7, 2);
                extra = (uint64_t)w * (uint64_t)h * 3;       // up to four components
                return true;
            }
        return false;
    }
    // GIL's skip_input_data walks a declared segment length (<= 65535) two bytes at a time once the input is exhausted
    static uint64_t declared_slack(std::string const&) { return 16384; }
    static size_t header_len(seed_t const& s) { size_t n = 0; for (auto const& g : jpeg_segments(s.bytes)) n = g.off + 2 + g.len; return n ? n : 64; }
    static std::string fixup(std::string const& b) { return b; }
    static std::vector<enum_field_t> enum_fields(seed_t const& s) {
        std::vector<enum_field_t> v;
        std::vector<uint64_t> hv = { 0x00, 0x10, 0x01, 0x11, 0x12, 0x21, 0x22, 0x13, 0x31, 0x14, 0x41, 0x24, 0x42, 0x33, 0x44 };
        for (auto const& g : jpeg_segments(s.bytes)) {
            unsigned o = (unsigned)g.off;
            if (g.marker == 0xE0) { v.push_back({ { "app0_units", o + 11, 1, true }, vrange(0, 4) }); v.push_back({ { "app0_version", o + 9, 2, true }, { 0x0100, 0x0101, 0x0102, 0x0200 } }); v.push_back({ { "app0_thumb", o + 16, 2, true }, { 0x0101, 0x0202, 0x1010 } }); }
            if (g.marker >= 0xC0 && g.marker <= 0xC2) {
                unsigned nc = (unsigned char)s.bytes[o + 9];
                v.push_back({ { "sof_precision", o + 4, 1, true }, vrange(0, 17) });
                v.push_back({ { "sof_ncomp", o + 9, 1, true }, vrange(0, 5) });
                static const char* sn[] = { "sof_comp1_sampling", "sof_comp2_sampling", "sof_comp3_sampling", "sof_comp4_sampling" };
                static const char* tn[] = { "sof_comp1_tq", "sof_comp2_tq", "sof_comp3_tq", "sof_comp4_tq" };
                static const char* idn[] = { "sof_comp1_id", "sof_comp2_id", "sof_comp3_id", "sof_comp4_id" };
                for (unsigned c = 0; c < nc && c < 4; ++c) {
                    v.push_back({ { sn[c], o + 11 + 3 * c, 1, true }, hv });
                    v.push_back({ { tn[c], o + 12 + 3 * c, 1, true }, vrange(0, 4) });
                    v.push_back({ { idn[c], o + 10 + 3 * c, 1, true }, vrange(0, 5, { 82, 71, 66 }) });
                }
            }
            if (g.marker == 0xDA) {
                unsigned nc = (unsigned char)s.bytes[o + 4];
                v.push_back({ { "sos_ncomp", o + 4, 1, true }, vrange(0, 5) });
                static const char* tb[] = { "sos_comp1_tables", "sos_comp2_tables", "sos_comp3_tables", "sos_comp4_tables" };
                for (unsigned c = 0; c < nc && c < 4; ++c) v.push_back({ { tb[c], o + 6 + 2 * c, 1, true }, { 0x00, 0x01, 0x10, 0x11, 0x02, 0x20, 0x22, 0x33 } });
                unsigned e = o + 5 + 2 * nc;
                v.push_back({ { "sos_Ss", e, 1, true }, vrange(0, 3, { 62, 63, 64 }) }); v.push_back({ { "sos_Se", e + 1, 1, true }, vrange(0, 3, { 62, 63, 64 }) });
                v.push_back({ { "sos_AhAl", e + 2, 1, true }, { 0x00, 0x01, 0x10, 0x11, 0x0D, 0xD0, 0x0E, 0xFF } });
            }
            if (g.marker == 0xEE) v.push_back({ { "adobe_transform", o + 15, 1, true }, vrange(0, 3) });
            if (g.marker == 0xDD) v.push_back({ { "dri_interval", o + 4, 2, true }, vrange(0, 4, { 7, 8, 9, 64 }) });
        }
        return v;
    }
    static std::vector<c11::field_t> fields(seed_t const& s) {
        std::vector<c11::field_t> f = { { "soi", 0, 2, true } };
        bool dqt = false, dht = false;
        for (auto const& g : jpeg_segments(s.bytes)) {
            unsigned o = (unsigned)g.off;
            if (g.marker == 0xE0) { f.push_back({ "app0_len", o + 2, 2, true }); f.push_back({ "app0_units", o + 11, 1, true }); f.push_back({ "app0_xdensity", o + 12, 2, true }); }
            if (g.marker == 0xDB && !dqt) { dqt = true; f.push_back({ "dqt_len", o + 2, 2, true }); f.push_back({ "dqt_pq_tq", o + 4, 1, true }); }
            if (g.marker >= 0xC0 && g.marker <= 0xC2) {
                f.push_back({ "sof_marker", o + 1, 1, true }); f.push_back({ "sof_len", o + 2, 2, true }); f.push_back({ "sof_precision", o + 4, 1, true });
                f.push_back({ "sof_height", o + 5, 2, true }); f.push_back({ "sof_width", o + 7, 2, true }); f.push_back({ "sof_ncomp", o + 9, 1, true });
                f.push_back({ "sof_comp1_id", o + 10, 1, true }); f.push_back({ "sof_comp1_sampling", o + 11, 1, true }); f.push_back({ "sof_comp1_tq", o + 12, 1, true });
            }
            if (g.marker == 0xC4 && !dht) { dht = true; f.push_back({ "dht_len", o + 2, 2, true }); f.push_back({ "dht_tc_th", o + 4, 1, true }); f.push_back({ "dht_count1", o + 5, 1, true }); }
            if (g.marker == 0xDA) { f.push_back({ "sos_len", o + 2, 2, true }); f.push_back({ "sos_ncomp", o + 4, 1, true }); f.push_back({ "sos_comp1_tables", o + 6, 1, true }); }
            if (g.marker == 0xEE) { f.push_back({ "adobe_transform", o + 15, 1, true }); }
        }
        return f;
    }
};
typedef F_jpeg F;
static void format_setup() {}
static std::vector<seed_t> g_seeds;
// insert a marker segment with length field `len` (2..65535, counts itself) after SOI
static std::string jpeg_insert(std::string const& b, int marker, unsigned len, uint64_t seed, size_t at = 2) {
    std::string seg; seg.push_back((char)0xFF); seg.push_back((char)marker); c11::app_be(seg, 2, len);
    vh::rng r(vh::mix(seed, 0x5E6));
    for (unsigned i = 2; i < len; ++i) seg.push_back((char)r.next());
    return b.substr(0, at) + seg + b.substr(at);
}
// files encoded by libjpeg directly: progressive scans, restart markers, optimised Huffman tables, 1x1 / 2x2 / 4x1 sampling
static std::string jpeg_encode(int w, int h, int comps, bool progressive, int restart, bool optimize, int hs, int vs, uint64_t seed) {
    jpeg_compress_struct c; jpeg_error_mgr e;
    c.err = jpeg_std_error(&e); jpeg_create_compress(&c);
    unsigned char* out = nullptr; unsigned long n = 0;
    jpeg_mem_dest(&c, &out, &n);
    c.image_width = w; c.image_height = h; c.input_components = comps;
    c.in_color_space = comps == 1 ? JCS_GRAYSCALE : comps == 3 ? JCS_RGB : JCS_CMYK;
    jpeg_set_defaults(&c); jpeg_set_quality(&c, 85, TRUE);
    if (progressive) jpeg_simple_progression(&c);
    c.restart_interval = restart; c.optimize_coding = optimize ? TRUE : FALSE;
    if (comps >= 3) { c.comp_info[0].h_samp_factor = hs; c.comp_info[0].v_samp_factor = vs; for (int k = 1; k < comps; ++k) { c.comp_info[k].h_samp_factor = 1; c.comp_info[k].v_samp_factor = 1; } if (comps == 4) { c.comp_info[3].h_samp_factor = hs; c.comp_info[3].v_samp_factor = vs; } }
    jpeg_start_compress(&c, TRUE);
    vh::rng r(vh::mix(seed, 0x19E6));
    std::vector<unsigned char> row((size_t)w * comps);
    for (int y = 0; y < h; ++y) {
        for (int x = 0; x < w; ++x) for (int k = 0; k < comps; ++k) row[(size_t)x * comps + k] = (unsigned char)(30 + 6 * x + 4 * y + 40 * k + r.below(8));
        JSAMPROW rp = row.data(); jpeg_write_scanlines(&c, &rp, 1);
    }
    jpeg_finish_compress(&c); jpeg_destroy_compress(&c);
    std::string b((const char*)out, n); free(out);
    return b;
}
template <class Img> static Img smooth_image(int w, int h, uint64_t seed) {
    Img im(w, h); vh::rng r(seed);
    auto v = gil::view(im);
    int nc = (int)gil::num_channels<Img>::value;
    for (int y = 0; y < h; ++y) { unsigned char* p = (unsigned char*)&*v.row_begin(y); for (int x = 0; x < w; ++x) for (int c = 0; c < nc; ++c) p[x * nc + c] = (unsigned char)(40 + 9 * x + 5 * y + 30 * c + r.below(6)); }
    return im;
}
static void build_seeds() {
    auto& v = g_seeds;
    gil::image_write_info<gil::jpeg_tag> wi;
    add_seed(v, "w-gray8-9x7", "gray8", written(gil::const_view(smooth_image<gil::gray8_image_t>(9, 7, 31)), wi), 0, true);
    add_seed(v, "w-rgb8-9x7", "rgb8", written(gil::const_view(smooth_image<gil::rgb8_image_t>(9, 7, 32)), wi), 1, true);
    add_seed(v, "w-cmyk8-9x7", "cmyk8", written(gil::const_view(smooth_image<gil::cmyk8_image_t>(9, 7, 33)), wi), 2, true);
    add_seed(v, "w-rgb8-1x1", "rgb8", written(gil::const_view(smooth_image<gil::rgb8_image_t>(1, 1, 34)), wi), 1, false);
    add_seed(v, "w-rgb8-33x17", "rgb8", written(gil::const_view(smooth_image<gil::rgb8_image_t>(33, 17, 35)), wi), 1, false);
    add_seed(v, "w-gray8-17x33", "gray8", written(gil::const_view(smooth_image<gil::gray8_image_t>(17, 33, 36)), wi), 0, false);
    add_fixture(v, "jpeg", "EddDawson/36dpi.jpg", "rgb8-density", 1, true);
    add_fixture(v, "jpeg", "test.jpg", "rgb8-large", 1, false);
    add_seed(v, "j-rgb8-19x13-progressive", "rgb8-progressive", jpeg_encode(19, 13, 3, true, 0, false, 2, 2, 81), 1, true, true);
    add_seed(v, "j-rgb8-19x13-restart1", "rgb8-restart", jpeg_encode(19, 13, 3, false, 1, false, 2, 2, 82), 1, false, true);
    add_seed(v, "j-gray8-19x13-progressive-restart", "gray8-progressive", jpeg_encode(19, 13, 1, true, 2, true, 1, 1, 83), 0, false, true);
    add_seed(v, "j-rgb8-17x9-444-optimized", "rgb8-444", jpeg_encode(17, 9, 3, false, 0, true, 1, 1, 84), 1, false, true);
    add_seed(v, "j-rgb8-33x9-411", "rgb8-411", jpeg_encode(33, 9, 3, false, 0, false, 4, 1, 85), 1, false, true);
    add_seed(v, "j-cmyk8-17x9-restart3", "cmyk8-restart", jpeg_encode(17, 9, 4, false, 3, false, 2, 1, 86), 2, false, true);
    // valid files with a long ignorable marker segment right after SOI (appended last: targeted() indexes the seeds above).
    // GIL's source manager refills a 4096-byte buffer; skipping such a segment needs several refills.
    std::string base = v[1].bytes;
    add_seed(v, "w-rgb8-9x7+COM3072", "rgb8-longseg", jpeg_insert(base, 0xFE, 3072, 71), 1, false);
    add_seed(v, "w-rgb8-9x7+APP1-8192", "rgb8-longseg", jpeg_insert(base, 0xE1, 8192, 72), 1, false);
    add_seed(v, "w-rgb8-9x7+COM20000", "rgb8-longseg", jpeg_insert(base, 0xFE, 20000, 73), 1, false);
    add_seed(v, "w-rgb8-9x7+APP1-65535", "rgb8-longseg", jpeg_insert(base, 0xE1, 65535, 74), 1, false);
}
static void long_segments() {
    std::string base = g_seeds[1].bytes, gray = g_seeds[0].bytes;
    // (a) valid: the decoder must skip the segment and deliver the pixels of the file without it
    unsigned lens[] = { 2, 3, 3072, 4091, 4092, 4093, 4094, 8187, 8188, 8189, 8192, 12284, 12285, 20000, 40000, 65534, 65535 };
    for (int marker : { 0xFE, 0xE1 }) for (unsigned len : lens)
        MUTEQ(gil::rgb8_image_t, "long-segment", vh::cat("rgb8+", marker == 0xFE ? "COM" : "APP1", "-", len), base, [&] { return jpeg_insert(base, marker, len, 100 + len); });
    for (unsigned len : { 8192u, 65535u })
        MUTEQ(gil::gray8_image_t, "long-segment", vh::cat("gray8+APP13-", len), gray, [&] { return jpeg_insert(gray, 0xED, len, 200 + len); });
    // two long segments in a row; a long segment after the tables (between DHT and SOS); a long segment that ends one byte before a refill
    MUTEQ(gil::rgb8_image_t, "long-segment", "rgb8+COM9000+APP2-9000", base, [&] { return jpeg_insert(jpeg_insert(base, 0xE2, 9000, 301), 0xFE, 9000, 302); });
    MUTEQ(gil::rgb8_image_t, "long-segment", "rgb8+COM5000+COM5000+COM5000", base, [&] { return jpeg_insert(jpeg_insert(jpeg_insert(base, 0xFE, 5000, 303), 0xFE, 5000, 304), 0xFE, 5000, 305); });
    for (unsigned len : { 4096u, 10000u, 65535u })
        MUTEQ(gil::rgb8_image_t, "long-segment", vh::cat("rgb8+COM", len, "-before-SOS"), base, [&] {
            size_t at = 2; for (auto const& g : jpeg_segments(base)) if (g.marker == 0xDA) at = g.off;
            return jpeg_insert(base, 0xFE, len, 310 + len, at);
        });
    // (b) the length field of a long segment against the bytes that follow (corrupted segment lengths of every size class)
    for (unsigned real : { 8192u, 20000u, 65535u }) {
        unsigned vals[] = { 0, 1, 2, 3, 4, 100, 4090, 4092, 4094, 4096, 8186, 8188, 8190, 8192, 8194, 12288, 19999, 20001, 0x7FFF, 0x8000, 0xFFFE, 0xFFFF };
        for (unsigned v : vals) {
            if (v == real) continue;
            MUT("long-segment-length", vh::cat("COM", real, ":len=", v), false, true, [&] { std::string b = jpeg_insert(base, 0xFE, real, 400 + real); c11::put_be(b, 4, 2, v); return b; });
        }
    }
    // a declared-long segment in a short file (the bytes to skip run out): every size class
    for (unsigned v : { 200u, 4000u, 4096u, 5000u, 8192u, 9000u, 20000u, 65535u })
        MUT("long-segment-length", vh::cat("APP1-in-short-file:len=", v), false, true, [&] { std::string b = jpeg_insert(base, 0xE1, 64, 450); c11::put_be(b, 4, 2, v); return b; });
    // (c) truncations of a file with a long segment around the refill boundaries and the end of the segment
    for (unsigned real : { 8192u, 20000u }) {
        std::string full = jpeg_insert(base, 0xFE, real, 500 + real);
        size_t seg_end = 4 + real;
        size_t cuts[] = { 4, 5, 6, 4094, 4095, 4096, 4097, 4098, 8190, 8191, 8192, 8193, 8194, 12287, 12288, 12289, seg_end - 2, seg_end - 1, seg_end, seg_end + 1, seg_end + 2, seg_end + 4,
                          full.size() - 2, full.size() - 1 };
        for (size_t c : cuts) {
            if (c >= full.size()) continue;
            MUT("long-segment-truncate", vh::cat("COM", real, "@", c), true, true, [&] { return full.substr(0, c); });
        }
    }
}
static void targeted() {
    long_segments();
    std::string base = g_seeds[1].bytes, gray = g_seeds[0].bytes;
    std::vector<jpeg_seg> segs = jpeg_segments(base);
    auto find = [&](std::string const& b, int marker) { for (auto const& s : jpeg_segments(b)) if (s.marker == marker) return s; jpeg_seg z; z.off = 0; z.marker = 0; z.len = 0; return z; };
    // dimensions vs the (small) entropy-coded data
    struct { const char* id; unsigned w, h; } dm[] = { { "w0", 0, 7 }, { "h0", 9, 0 }, { "65535x65535", 65535, 65535 }, { "65535x1", 65535, 1 }, { "1x65535", 1, 65535 },
                                                       { "4000x4000", 4000, 4000 }, { "2000x100", 2000, 100 }, { "8x8", 8, 8 }, { "1x1", 1, 1 } };
    for (auto const& c : dm) for (int g = 0; g < 2; ++g) {
        if (!vh::thorough() && (uint64_t)c.w * c.h > (6u << 20) && (uint64_t)c.w * c.h < (80u << 20)) continue;
        MUT("dimension", vh::cat(c.id, g ? "-gray" : "-rgb"), false, true, [&] {
            std::string b = g ? gray : base; jpeg_seg s = find(b, 0xC0);
            c11::put_be(b, s.off + 5, 2, c.h); c11::put_be(b, s.off + 7, 2, c.w); return b;
        });
    }
    // component counts / sampling factors / table selectors
    for (int nc : { 0, 1, 2, 3, 4, 5, 10, 255 })
        MUT("components", vh::cat("sof-ncomp", nc), false, true, [&] { std::string b = base; jpeg_seg s = find(b, 0xC0); b[s.off + 9] = (char)nc; return b; });
    for (int sf : { 0x00, 0x10, 0x01, 0x11, 0x22, 0x41, 0x14, 0x44, 0x55, 0xFF }) for (int comp = 0; comp < 3; ++comp)
        MUT("sampling", vh::cat("comp", comp, "-", sf), false, true, [&] { std::string b = base; jpeg_seg s = find(b, 0xC0); b[s.off + 11 + 3 * comp] = (char)sf; return b; });
    for (int tq : { 1, 2, 3, 4, 15, 255 }) for (int comp = 0; comp < 3; ++comp)
        MUT("table-selector", vh::cat("sof-comp", comp, "-tq", tq), false, true, [&] { std::string b = base; jpeg_seg s = find(b, 0xC0); b[s.off + 12 + 3 * comp] = (char)tq; return b; });
    for (int t : { 0x01, 0x10, 0x22, 0x33, 0x44, 0xFF }) for (int comp = 0; comp < 3; ++comp)
        MUT("table-selector", vh::cat("sos-comp", comp, "-tables", t), false, true, [&] { std::string b = base; jpeg_seg s = find(b, 0xDA); b[s.off + 6 + 2 * comp] = (char)t; return b; });
    // segment lengths: beyond EOF, shorter than the payload, below 2
    for (int marker : { 0xE0, 0xDB, 0xC0, 0xC4, 0xDA }) for (unsigned len : { 0u, 1u, 2u, 3u, 0x7FFFu, 0xFFFFu })
        MUT("segment-length", vh::cat("marker", marker, "-len", len), false, true, [&] { std::string b = base; jpeg_seg s = find(b, marker); if (s.off) c11::put_be(b, s.off + 2, 2, len); return b; });
    // missing tables / segments, duplicated SOF, markers inside the scan
    for (int k = 0; k < 8; ++k)
        MUT("structure", vh::cat("variant", k), false, true, [&] {
            std::string b = base; std::vector<jpeg_seg> ss = jpeg_segments(b);
            auto cut = [&](int marker, bool all) { std::string o = b.substr(0, 2); for (auto const& s : ss) { bool drop = s.marker == marker; if (drop && !all) { marker = -1; } if (!drop) o += b.substr(s.off, s.marker == 0xDA ? std::string::npos : 2 + s.len); } return o; };
            switch (k) {
            case 0: return cut(0xDB, true);
            case 1: return cut(0xC4, true);
            case 2: return cut(0xC0, true);
            case 3: return cut(0xDA, true);
            case 4: { jpeg_seg s = find(b, 0xC0); return b.substr(0, s.off) + b.substr(s.off, 2 + s.len) + b.substr(s.off); }
            case 5: { jpeg_seg s = find(b, 0xDA); std::string o = b; size_t p = s.off + 2 + s.len + 5; if (p + 2 < o.size()) { o[p] = (char)0xFF; o[p + 1] = (char)0xC0; } return o; }
            case 6: { jpeg_seg s = find(b, 0xDA); std::string o = b; size_t p = s.off + 2 + s.len + 3; if (p + 2 < o.size()) { o[p] = (char)0xFF; o[p + 1] = (char)0xD9; } return o; }
            default: return b.substr(0, b.size() - 2);
            }
        });
    // arithmetic / progressive / lossless SOF markers on baseline data
    for (int m : { 0xC1, 0xC2, 0xC3, 0xC5, 0xC9, 0xCA, 0xCB, 0xCF })
        MUT("sof-kind", vh::cat("marker", m), false, true, [&] { std::string b = base; jpeg_seg s = find(b, 0xC0); b[s.off + 1] = (char)m; return b; });
    const char* junk[] = { "", "\xff", "\xff\xd8", "\xff\xd8\xff", "\xff\xd8\xff\xd9", "BM....", "\x89PNG\r\n\x1a\n" };
    for (int k = 0; k < 7; ++k) MUT("not-jpeg", vh::cat("junk", k), false, true, [&] { return std::string(junk[k]); });
}
#endif

#if C11_FMT == 5   // ---------------------------------------------------------------------------- TIFF
struct tiff_entry { size_t off; unsigned tag, type; uint64_t count, value; };
static std::vector<tiff_entry> tiff_ifd(std::string const& b, size_t* ifd_off_out = nullptr) {
    std::vector<tiff_entry> v;
    if (b.size() < 8 || b[0] != 'I' || b[1] != 'I') return v;       // the seeds are little-endian
    size_t ifd = (size_t)c11::get_le(b, 4, 4);
    if (ifd_off_out) *ifd_off_out = ifd;
    if (ifd + 2 > b.size()) return v;
    unsigned n = (unsigned)c11::get_le(b, ifd, 2);
    for (unsigned i = 0; i < n && ifd + 2 + 12 * (i + 1) <= b.size(); ++i) {
        tiff_entry e; e.off = ifd + 2 + 12 * i;
        e.tag = (unsigned)c11::get_le(b, e.off, 2); e.type = (unsigned)c11::get_le(b, e.off + 2, 2);
        e.count = c11::get_le(b, e.off + 4, 4); e.value = c11::get_le(b, e.off + 8, e.type == 3 ? 2 : 4);
        v.push_back(e);
    }
    return v;
}
struct F_tiff {
    typedef gil::tiff_tag tag;
    static const char* name() { return "tiff"; }
    static const char* ext() { return "tif"; }
    static const bool has_FILE = false;         // GIL has no FILE* device for TIFF
    static const bool subrect = true;
    static const bool lib_codec = true;
    static const bool strict_field_reads = false;
    static const bool has_info_all = false;
    static size_t fixed_header_len(std::string const&) { return 0; }
    template <class Src> static void info_all(Src&, outcome&) {}
    template <class Backend> static std::string backend_extra(Backend const&) { return std::string(); }
    typedef std::tuple<gil::gray8_image_t, gil::rgb8_image_t, gil::rgba8_image_t, gil::rgb16_image_t> natives;
    typedef std::tuple<gil::rgb8_image_t, gil::gray16_image_t> conv_targets;
    typedef gil::any_image<gil::gray8_image_t, gil::rgb8_image_t, gil::rgba8_image_t, gil::rgb16_image_t> any_t;
    static std::string info_str(gil::image_read_info<tag> const& i) {
        dumper d;
        d.f("w", i._width).f("h", i._height).f("comp", i._compression).f("bps", i._bits_per_sample).f("spp", i._samples_per_pixel).f("sf", i._sample_format)
         .f("pc", i._planar_configuration).f("pi", i._photometric_interpretation).f("tiled", i._is_tiled).f("tw", i._tile_width).f("tl", i._tile_length)
         .f("xres", i._x_resolution).f("yres", i._y_resolution).f("ru", (int)i._resolution_unit).f("icc", i._icc_profile);
        return d.str();
    }
    static bool parse_dims(std::string const& b, long& w, long& h, uint64_t& extra) {
        extra = 0; w = h = 0;
        uint64_t spp = 1, tw = 0, tl = 0;
        for (auto const& e : tiff_ifd(b)) {
            if (e.tag == 256) w = (long)e.value;
            if (e.tag == 257) h = (long)e.value;
            if (e.tag == 277) spp = e.value;
            if (e.tag == 322) tw = e.value;
            if (e.tag == 323) tl = e.value;
        }
        if (w <= 0 || h <= 0) return false;
        // tiles are read whole: round up to the tile grid; several samples per pixel
        uint64_t ww = (uint64_t)w, hh = (uint64_t)h;
        if (tw && tl && tw < (1u << 20) && tl < (1u << 20)) { ww = (ww + tw - 1) / tw * tw; hh = (hh + tl - 1) / tl * tl; }
        if (spp > 8) spp = 8;
        unsigned __int128 p = (unsigned __int128)ww * hh * spp;
        extra = p > ((unsigned __int128)1 << 40) ? ((uint64_t)1 << 40) : (uint64_t)p;
        return true;
    }
    static uint64_t declared_slack(std::string const& b) { return 8192 + b.size(); }     // libtiff re-reads directories and tag arrays
    static size_t header_len(seed_t const& s) { size_t ifd = 8; std::vector<tiff_entry> e = tiff_ifd(s.bytes, &ifd); return ifd + 2 + 12 * e.size() + 4; }
    static std::string fixup(std::string const& b) { return b; }
    static std::vector<enum_field_t> enum_fields(seed_t const& s) {
        std::vector<enum_field_t> v;
        static std::vector<std::string> names; names.reserve(4096);
        for (auto const& e : tiff_ifd(s.bytes)) {
            std::vector<uint64_t> vals;
            switch (e.tag) {
            case 259: vals = { 0, 1, 2, 3, 4, 5, 6, 7, 8, 9, 10, 32766, 32771, 32773, 32809, 32895, 32908, 32909, 32946, 32947, 34661, 34676, 34677, 34712, 34925, 50000, 50001 }; break;
            case 262: vals = vrange(0, 10, { 32803, 32844, 32845, 34892 }); break;
            case 274: vals = vrange(0, 9); break;
            case 284: vals = vrange(0, 3); break;
            case 339: vals = vrange(0, 7); break;
            case 258: vals = vrange(0, 33, { 64 }); break;
            case 277: vals = vrange(0, 9); break;
            case 266: vals = vrange(0, 3); break;
            case 317: vals = vrange(0, 4); break;
            case 296: vals = vrange(0, 4); break;
            case 278: vals = vrange(0, 9); break;
            case 338: vals = vrange(0, 3); break;
            case 254: vals = vrange(0, 8); break;
            case 322: case 323: vals = { 1, 2, 8, 15, 16, 17, 31, 32, 48, 64 }; break;
            default: break;
            }
            if (vals.empty() || names.size() + 1 >= names.capacity()) continue;
            names.push_back(vh::cat("tag", e.tag, ".value"));
            v.push_back({ { names.back().c_str(), (unsigned)(e.off + 8), e.type == 3 ? 2u : 4u, false }, vals });
        }
        return v;
    }
    static std::vector<c11::field_t> fields(seed_t const& s) {
        std::vector<c11::field_t> f = { { "byte_order", 0, 2, false }, { "magic", 2, 2, false }, { "ifd_offset", 4, 4, false } };
        size_t ifd = 0; std::vector<tiff_entry> es = tiff_ifd(s.bytes, &ifd);
        if (es.empty()) return f;
        f.push_back({ "ifd_count", (unsigned)ifd, 2, false });
        f.push_back({ "next_ifd", (unsigned)(ifd + 2 + 12 * es.size()), 4, false });
        static std::vector<std::string> names;      // stable storage for the names
        names.reserve(4096);
        for (auto const& e : es) {
            const char* kinds[] = { "type", "count", "value" };
            for (int k = 0; k < 3; ++k) {
                if (names.size() + 1 >= names.capacity()) break;
                names.push_back(vh::cat("tag", e.tag, ".", kinds[k]));
                f.push_back({ names.back().c_str(), (unsigned)(e.off + (k == 0 ? 2 : k == 1 ? 4 : 8)), k == 0 ? 2u : 4u, false });
            }
        }
        return f;
    }
};
typedef F_tiff F;
static void format_setup() { TIFFSetErrorHandler(nullptr); TIFFSetWarningHandler(nullptr); }
static std::vector<seed_t> g_seeds;
template <class Img> static std::string tiff_written(int w, int h, uint64_t seed, int compression, bool tiled, int tile) {
    gil::image_write_info<gil::tiff_tag> wi;
    wi._compression = compression;
    wi._is_tiled = tiled; wi._tile_width = tile; wi._tile_length = tile;
    wi._photometric_interpretation = gil::num_channels<Img>::value == 1 ? PHOTOMETRIC_MINISBLACK : PHOTOMETRIC_RGB;
    return written(gil::const_view(seeded_image<Img>(w, h, seed)), wi);
}
static std::string tiff_add_tag(std::string b, unsigned tag, unsigned type, uint32_t count, uint64_t seed);
// files written by libtiff directly: big-endian byte order, several directories, separate planes, several strips
static std::string tiff_direct(const char* mode, int w, int h, int spp, int bps, int planar, int rows_per_strip, int pages, int compression, uint64_t seed) {
    c11::scratch_file sf(std::string(), "tif");
    TIFF* t = TIFFOpen(sf.path.c_str(), mode);
    if (!t) vh::fatal_monitor("harness", "TIFFOpen for writing failed");
    vh::rng r(vh::mix(seed, 0x71FF));
    for (int pg = 0; pg < pages; ++pg) {
        TIFFSetField(t, TIFFTAG_IMAGEWIDTH, w); TIFFSetField(t, TIFFTAG_IMAGELENGTH, h); TIFFSetField(t, TIFFTAG_SAMPLESPERPIXEL, spp);
        TIFFSetField(t, TIFFTAG_BITSPERSAMPLE, bps); TIFFSetField(t, TIFFTAG_PLANARCONFIG, planar); TIFFSetField(t, TIFFTAG_ROWSPERSTRIP, rows_per_strip);
        TIFFSetField(t, TIFFTAG_PHOTOMETRIC, spp >= 3 ? PHOTOMETRIC_RGB : PHOTOMETRIC_MINISBLACK); TIFFSetField(t, TIFFTAG_COMPRESSION, compression);
        TIFFSetField(t, TIFFTAG_ORIENTATION, ORIENTATION_TOPLEFT);
        if (spp == 4) { uint16_t ex = EXTRASAMPLE_UNASSALPHA; TIFFSetField(t, TIFFTAG_EXTRASAMPLES, 1, &ex); }
        size_t rb = planar == PLANARCONFIG_SEPARATE ? ((size_t)w * bps + 7) / 8 : ((size_t)w * spp * bps + 7) / 8;
        std::vector<unsigned char> row(rb);
        for (int s = 0; s < (planar == PLANARCONFIG_SEPARATE ? spp : 1); ++s)
            for (int y = 0; y < h; ++y) { for (auto& c : row) c = (unsigned char)r.next(); TIFFWriteScanline(t, row.data(), y, (uint16_t)s); }
        if (pg + 1 < pages) TIFFWriteDirectory(t);
    }
    TIFFClose(t);
    std::string b; c11::slurp(sf.path, b);
    return b;
}
static void build_seeds() {
    auto& v = g_seeds;
    add_seed(v, "w-gray8-9x7-strip", "gray8-strip", tiff_written<gil::gray8_image_t>(9, 7, 41, COMPRESSION_NONE, false, 0), 0, true);
    add_seed(v, "w-rgb8-9x7-strip", "rgb8-strip", tiff_written<gil::rgb8_image_t>(9, 7, 42, COMPRESSION_NONE, false, 0), 1, true);
    add_seed(v, "w-rgba8-5x4-strip", "rgba8-strip", tiff_written<gil::rgba8_image_t>(5, 4, 43, COMPRESSION_NONE, false, 0), 2, false);
    add_seed(v, "w-rgb16-4x3-strip", "rgb16-strip", tiff_written<gil::rgb16_image_t>(4, 3, 44, COMPRESSION_NONE, false, 0), 3, false);
    add_seed(v, "w-rgb8-9x7-lzw", "rgb8-lzw", tiff_written<gil::rgb8_image_t>(9, 7, 45, COMPRESSION_LZW, false, 0), 1, true);
    add_seed(v, "w-gray8-9x7-packbits", "gray8-packbits", tiff_written<gil::gray8_image_t>(9, 7, 46, COMPRESSION_PACKBITS, false, 0), 0, false);
    add_seed(v, "w-rgb8-9x7-deflate", "rgb8-deflate", tiff_written<gil::rgb8_image_t>(9, 7, 47, COMPRESSION_ADOBE_DEFLATE, false, 0), 1, false);
    add_seed(v, "w-rgb8-20x18-tile16", "rgb8-tiled", tiff_written<gil::rgb8_image_t>(20, 18, 48, COMPRESSION_NONE, true, 16), 1, true);
    add_seed(v, "w-gray8-20x18-tile16-lzw", "gray8-tiled-lzw", tiff_written<gil::gray8_image_t>(20, 18, 49, COMPRESSION_LZW, true, 16), 0, false);
    add_seed(v, "w-rgb8-1x1-strip", "rgb8-strip", tiff_written<gil::rgb8_image_t>(1, 1, 50, COMPRESSION_NONE, false, 0), 1, false);
    { gil::image_write_info<gil::tiff_tag> wi; gil::gray1_image_t g(19, 5); gil::fill_pixels(gil::view(g), gil::gray1_image_t::value_type(0)); vh::rng r(51);
      auto gv = gil::view(g); for (int y = 0; y < 5; ++y) { auto it = gv.row_begin(y); for (int x = 0; x < 19; ++x, ++it) gil::at_c<0>(*it) = (unsigned)r.below(2); }
      add_seed(v, "w-gray1-19x5-strip", "gray1-strip", written(gil::view(g), wi), 0, false); }
    add_seed(v, "w-rgb8-9x7-strip+private-tag-20000", "rgb8-strip-longtag", tiff_add_tag(v[1].bytes, 65000, 1, 20000, 699), 1, false);
    add_seed(v, "t-rgb8-9x7-bigendian", "rgb8-bigendian", tiff_direct("wb", 9, 7, 3, 8, PLANARCONFIG_CONTIG, 7, 1, COMPRESSION_NONE, 91), 1, false);
    add_seed(v, "t-rgb8-9x7-planar-3strips", "rgb8-planar", tiff_direct("wl", 9, 7, 3, 8, PLANARCONFIG_SEPARATE, 3, 1, COMPRESSION_NONE, 92), 1, true);
    add_seed(v, "t-rgb8-5x4-2pages", "rgb8-multipage", tiff_direct("wl", 5, 4, 3, 8, PLANARCONFIG_CONTIG, 2, 2, COMPRESSION_PACKBITS, 93), 1, false);
    add_seed(v, "t-rgb16-5x4-bigendian-lzw", "rgb16-bigendian", tiff_direct("wb", 5, 4, 3, 16, PLANARCONFIG_CONTIG, 4, 1, COMPRESSION_LZW, 94), 3, false);
    add_seed(v, "t-gray8-9x7-1row-strips", "gray8-strips", tiff_direct("wl", 9, 7, 1, 8, PLANARCONFIG_CONTIG, 1, 1, COMPRESSION_NONE, 95), 0, false);
}
// re-write the first IFD at the end of the file with one more entry (tags stay sorted: the new tag is the largest),
// its `count` data bytes stored before the new IFD
static std::string tiff_add_tag(std::string b, unsigned tag, unsigned type, uint32_t count, uint64_t seed) {
    size_t ifd = 0; std::vector<tiff_entry> es = tiff_ifd(b, &ifd);
    if (es.empty()) return b;
    if (b.size() & 1) b.push_back((char)0);
    size_t data_off = b.size();
    vh::rng r(vh::mix(seed, 0x71F));
    size_t unit = (type == 3 ? 2 : type == 4 ? 4 : 1);
    for (size_t i = 0; i < (size_t)count * unit; ++i) b.push_back((char)r.next());
    if (b.size() & 1) b.push_back((char)0);
    size_t new_ifd = b.size();
    c11::app_le(b, 2, es.size() + 1);
    b += std::string(b.data() + ifd + 2, 12 * es.size());       // (the temporary is built before the append)
    c11::app_le(b, 2, tag); c11::app_le(b, 2, type); c11::app_le(b, 4, count); c11::app_le(b, 4, data_off);
    c11::app_le(b, 4, 0);
    c11::put_le(b, 4, 4, new_ifd);
    return b;
}
static void long_tags() {
    std::string base = g_seeds[1].bytes, tiled = g_seeds[7].bytes;
    struct { const char* id; unsigned tag, type; uint32_t count; } tc[] = { { "private65000-bytes20000", 65000, 1, 20000 }, { "private65001-undefined70000", 65001, 7, 70000 },
                                                                            { "private65002-shorts10000", 65002, 3, 10000 }, { "private65003-longs5000", 65003, 4, 5000 } };
    for (auto const& c : tc) {
        MUTEQ(gil::rgb8_image_t, "long-tag", vh::cat("strip+", c.id), base, [&] { return tiff_add_tag(base, c.tag, c.type, c.count, 700 + c.tag); });
        MUTEQ(gil::rgb8_image_t, "long-tag", vh::cat("tiled+", c.id), tiled, [&] { return tiff_add_tag(tiled, c.tag, c.type, c.count, 710 + c.tag); });
    }
    // count / offset of the long tag against the file
    std::string with = tiff_add_tag(base, 65000, 1, 20000, 720);
    for (uint64_t v : { 0ull, 1ull, 4ull, 5ull, 19999ull, 20001ull, 40000ull, 0x7FFFFFFFull, 0xFFFFFFFFull })
        MUT("long-tag-count", vh::cat("private65000:count=", v), false, true, [&] {
            std::string b = with; for (auto const& e : tiff_ifd(b)) if (e.tag == 65000) c11::put_le(b, e.off + 4, 4, v); return b;
        });
    for (unsigned long long v : { 0ull, 1ull, 8ull, (unsigned long long)with.size() - 1, (unsigned long long)with.size(), (unsigned long long)with.size() + 100, 0x7FFFFFFFull, 0xFFFFFFFFull })
        MUT("long-tag-offset", vh::cat("private65000:offset=", v), false, true, [&] {
            std::string b = with; for (auto const& e : tiff_ifd(b)) if (e.tag == 65000) c11::put_le(b, e.off + 8, 4, v); return b;
        });
}
static void targeted() {
    long_tags();
    std::string base = g_seeds[1].bytes, tiled = g_seeds[7].bytes, lzw = g_seeds[4].bytes;
    auto set_tag = [](std::string b, unsigned tag, int what /*0 type 1 count 2 value*/, uint64_t v) {
        for (auto const& e : tiff_ifd(b)) if (e.tag == tag) c11::put_le(b, e.off + (what == 0 ? 2 : what == 1 ? 4 : 8), what == 0 ? 2 : 4, v);
        return b;
    };
    // dimensions / rows per strip / tile sizes against the stored data
    struct { const char* id; unsigned tag; uint64_t v; } tv[] = {
        { "width0", 256, 0 }, { "height0", 257, 0 }, { "width-2^31-1", 256, 0x7FFFFFFF }, { "height-2^31-1", 257, 0x7FFFFFFF }, { "width-65536", 256, 65536 }, { "height-65536", 257, 65536 },
        { "width-10", 256, 10 }, { "height-8", 257, 8 }, { "width-3000", 256, 3000 }, { "height-3000", 257, 3000 },
        { "rowsperstrip0", 278, 0 }, { "rowsperstrip1", 278, 1 }, { "rowsperstrip-2^32-1", 278, 0xFFFFFFFFull }, { "stripbytecount0", 279, 0 }, { "stripbytecount-huge", 279, 0x7FFFFFFF },
        { "stripoffset-beyond", 273, 0x00FFFFFF }, { "stripoffset0", 273, 0 }, { "bps0", 258, 0 }, { "bps1", 258, 1 }, { "bps7", 258, 7 }, { "bps16", 258, 16 }, { "bps32", 258, 32 }, { "bps64", 258, 64 },
        { "spp0", 277, 0 }, { "spp1", 277, 1 }, { "spp2", 277, 2 }, { "spp4", 277, 4 }, { "spp5", 277, 5 }, { "spp255", 277, 255 }, { "spp65535", 277, 65535 },
        { "photometric-palette", 262, 3 }, { "photometric-ycbcr", 262, 6 }, { "photometric-cielab", 262, 8 }, { "photometric-miniswhite", 262, 0 }, { "photometric-99", 262, 99 },
        { "planar-separate", 284, 2 }, { "planar-0", 284, 0 }, { "planar-3", 284, 3 }, { "compression-ccitt3", 259, 3 }, { "compression-jpeg", 259, 7 }, { "compression-lzw", 259, 5 },
        { "compression-packbits", 259, 32773 }, { "compression-deflate", 259, 8 }, { "compression-0", 259, 0 }, { "compression-65535", 259, 65535 },
        { "orientation-5", 274, 5 }, { "orientation-9", 274, 9 }, { "sampleformat-float", 339, 3 }, { "sampleformat-int", 339, 2 } };
    for (auto const& c : tv) for (int which = 0; which < 3; ++which)
        MUT("tag-value", vh::cat(which == 0 ? "strip-" : which == 1 ? "tiled-" : "lzw-", c.id), false, true, [&] { return set_tag(which == 0 ? base : which == 1 ? tiled : lzw, c.tag, 2, c.v); });
    struct { const char* id; unsigned tag; uint64_t v; } tt[] = { { "tilewidth0", 322, 0 }, { "tilelength0", 323, 0 }, { "tilewidth1", 322, 1 }, { "tilewidth-17", 322, 17 }, { "tilewidth-2^31", 322, 0x80000000ull },
                                                                   { "tilelength-65536", 323, 65536 }, { "tilewidth-1024", 322, 1024 }, { "tilebytecount0", 325, 0 }, { "tileoffsets-count1", 324, 1 } };
    for (auto const& c : tt)
        MUT("tile-geometry", c.id, false, true, [&] { return strstr(c.id, "count1") ? set_tag(tiled, c.tag, 1, c.v) : set_tag(tiled, c.tag, 2, c.v); });
    // counts and types of the array-valued tags
    for (unsigned tag : { 256u, 258u, 273u, 279u, 277u, 324u, 325u }) for (uint64_t cnt : { 0ull, 2ull, 3ull, 1000ull, 0x7FFFFFFFull, 0xFFFFFFFFull }) for (int which = 0; which < 2; ++which)
        MUT("tag-count", vh::cat(which ? "tiled-" : "strip-", "tag", tag, "-count", cnt), false, true, [&] { return set_tag(which ? tiled : base, tag, 1, cnt); });
    for (unsigned tag : { 256u, 257u, 258u, 273u, 279u }) for (unsigned ty : { 0u, 1u, 2u, 5u, 7u, 11u, 12u, 13u, 16u, 255u })
        MUT("tag-type", vh::cat("tag", tag, "-type", ty), false, true, [&] { return set_tag(base, tag, 0, ty); });
    // directory structure: self-referencing next-IFD, IFD beyond EOF, zero entries, big-endian marker on little-endian data, BigTIFF magic
    for (int k = 0; k < 8; ++k)
        MUT("directory", vh::cat("variant", k), false, true, [&] {
            std::string b = base; size_t ifd = 0; std::vector<tiff_entry> es = tiff_ifd(b, &ifd);
            switch (k) {
            case 0: c11::put_le(b, ifd + 2 + 12 * es.size(), 4, ifd); return b;
            case 1: c11::put_le(b, 4, 4, b.size() + 100); return b;
            case 2: c11::put_le(b, ifd, 2, 0); return b;
            case 3: b[0] = 'M'; b[1] = 'M'; return b;
            case 4: c11::put_le(b, 2, 2, 43); return b;
            case 5: c11::put_le(b, ifd, 2, 0xFFFF); return b;
            case 6: c11::put_le(b, 4, 4, 1); return b;
            default: c11::put_le(b, 4, 4, b.size() - 3); return b;
            }
        });
    const char* junk[] = { "", "I", "II", "II*", "MM\0*", "II*\0\x08\0\0\0", "BM....", "\x89PNG\r\n\x1a\n" };
    size_t junk_len[] = { 0, 1, 2, 3, 4, 8, 6, 8 };
    for (int k = 0; k < 8; ++k) MUT("not-tiff", vh::cat("junk", k), false, true, [&] { return std::string(junk[k], junk_len[k]); });
}
#endif
