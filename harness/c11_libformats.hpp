// placeholder
