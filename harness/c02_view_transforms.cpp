// C02 -- view transformations are exact, copy-free coordinate remappings.
// For every organisation (-DORG=k), every shape up to N, every word of transformations up to
// depth k: dimensions, pixel *identity* of derived(x,y) == identity of source(M(x,y)) where M is
// composed from the documented formulas, values, and write-through with a whole-block diff.
// Terminal letters: nth_channel_view / kth_channel_view / color_converted_view.
// ORG==100: virtual_2d_locator views (read-only, coordinates as pixel values).
#include <boost/gil.hpp>
#include <boost/gil/extension/toolbox/metafunctions/is_bit_aligned.hpp>
#include "common/vh.hpp"
#include "common/ledger.hpp"
#include "common/views.hpp"

#ifndef ORG
#define ORG 1
#endif

namespace gil = boost::gil;
using namespace vw;

static std::string g_org;
static inline std::string key(const char* what) { return vh::cat(what, ".", g_org); }

#if ORG < 100
typedef org<ORG, led::alloc<unsigned char>>::image_t image_t;
typedef image_t::view_t view_t;
static const bool homogeneous_bytes = (ORG <= 11 || ORG == 25 || ORG == 26);

struct srcinfo {
    long w, h;
    std::vector<pt::pixid> id;      // identity table of the source, row-major
    unsigned char* block; size_t bytes;   // the image's allocation (whole-block diff)
    uint64_t seed;
    view_t src;
    pt::pixid const& at(long x, long y) const { return id[(size_t)(y * w + x)]; }
};

// bits of the block that may legitimately change when the pixel with identity 'pid' is written
static void allowed_mask(srcinfo const& s, pt::pixid const& pid, int only_channel, std::vector<unsigned char>& mask) {
    mask.assign(s.bytes, 0);
    for (int c = 0; c < pid.n; ++c) {
        if (only_channel >= 0 && c != only_channel) continue;
        for (unsigned b = 0; b < pid.bits[c]; ++b) {
            uint64_t bp = pid.bitpos[c] + b;
            uint64_t byte = (bp >> 3) - (uint64_t)(uintptr_t)s.block;
            if (byte < s.bytes) mask[(size_t)byte] |= (unsigned char)(1u << (bp & 7));
        }
    }
}

struct checker {
    srcinfo& s;
    uint64_t n_pix = 0, n_views = 0, n_writes = 0;
    explicit checker(srcinfo& s_) : s(s_) {}

    // full-pixel views (base type or the dynamic step type)
    template <class W> void operator()(W const& d, mapping const& m) {
        ++n_views;
        vh::obs(vh::cat("depth", m.steps.size()));
        if (d.width() != m.w || d.height() != m.h) {
            vh::viol(key("dims"), vh::cat("word=", m.word(), " source ", s.w, "x", s.h, " derived ", d.width(), "x", d.height(), " expected ", m.w, "x", m.h));
            return;
        }
        if (m.w == 0 || m.h == 0) {
            if (!(d.begin() == d.end())) vh::viol(key("empty-begin-end"), vh::cat("word=", m.word(), " ", m.w, "x", m.h, " begin()!=end()"));
            if (d.size() != 0) vh::viol(key("empty-size"), vh::cat("word=", m.word()));
            return;
        }
        typedef typename W::reference R;
        std::vector<unsigned char> before, mask;
        for (long y = 0; y < m.h; ++y)
            for (long x = 0; x < m.w; ++x) {
                long sx, sy; m.map(x, y, sx, sy);
                ++n_pix;
                if (sx < 0 || sy < 0 || sx >= s.w || sy >= s.h) { vh::viol(key("model-out-of-range"), vh::cat("word=", m.word(), " (", x, ",", y, ")")); continue; }
                pt::pixid got = pt::id_of(d(x, y));
                if (got != s.at(sx, sy)) {
                    vh::viol(key("identity"), vh::cat("word=", m.word(), " source ", s.w, "x", s.h, " derived(", x, ",", y, ") is ", got.str(), " expected source(", sx, ",", sy, ")=", s.at(sx, sy).str()));
                    continue;
                }
                pt::pixval expect = pt::norm_pix<R>(pt::pattern_pix(s.seed, 0, sx, sy, pt::nch<R>::value));
                if (pt::get_pix(d(x, y)) != expect)
                    vh::viol(key("value"), vh::cat("word=", m.word(), " derived(", x, ",", y, ")=", pt::get_pix(d(x, y)).str(), " source(", sx, ",", sy, ")=", expect.str()));
                // write-through: exactly the source pixel's bits change
                before.assign(s.block, s.block + s.bytes);
                pt::pixval inv = expect; for (int c = 0; c < inv.n; ++c) inv.ch[c] = ~inv.ch[c];
                inv = pt::norm_pix<R>(inv);
                pt::set_pix(d(x, y), inv);
                ++n_writes;
                allowed_mask(s, s.at(sx, sy), -1, mask);
                for (size_t i = 0; i < s.bytes; ++i)
                    if ((before[i] ^ s.block[i]) & ~mask[i]) {
                        vh::viol(key("write-through-elsewhere"), vh::cat("word=", m.word(), " write at derived(", x, ",", y, ") changed block byte ", i, " outside the source pixel (", sx, ",", sy, ")"));
                        break;
                    }
                if (pt::get_pix(s.src(sx, sy)) != inv)
                    vh::viol(key("write-through-lost"), vh::cat("word=", m.word(), " wrote ", inv.str(), " at derived(", x, ",", y, "), source(", sx, ",", sy, ") reads ", pt::get_pix(s.src(sx, sy)).str()));
                pt::set_pix(d(x, y), expect);      // restore
            }
        // conversion to the const view type must keep dimensions and pixel identities
        {
            typename W::const_t cd(d);
            if (cd.width() != m.w || cd.height() != m.h) vh::viol(key("const-conversion-dims"), vh::cat("word=", m.word()));
            else
                for (long y = 0; y < m.h; ++y)
                    for (long x = 0; x < m.w; ++x) {
                        long sx, sy; m.map(x, y, sx, sy);
                        ++n_pix;
                        if (pt::id_of(cd(x, y)) != s.at(sx, sy)) { vh::viol(key("const-conversion-identity"), vh::cat("word=", m.word(), " const_t(view)(", x, ",", y, ")")); break; }
                    }
        }
        // a derived view assigned to (not initialised from) and swapped with another view object is the same mapping
        {
            W a; a = d;
            W b(a), c; using std::swap; swap(b, c);
            if (c.width() != m.w || c.height() != m.h || b.width() != 0 || b.height() != 0) vh::viol(key("assign-swap-dims"), vh::cat("word=", m.word()));
            else
                for (long y = 0; y < m.h; ++y)
                    for (long x = 0; x < m.w; ++x) {
                        long sx, sy; m.map(x, y, sx, sy);
                        ++n_pix;
                        if (pt::id_of(a(x, y)) != s.at(sx, sy) || pt::id_of(c(x, y)) != s.at(sx, sy)) { vh::viol(key("assign-swap-identity"), vh::cat("word=", m.word(), " assigned/swapped view at (", x, ",", y, ")")); break; }
                    }
        }
        channels(d, m, std::integral_constant<bool, homogeneous_bytes>());
    }

    // terminal letters on homogeneous byte-channel organisations
    template <class W> void channels(W const& d, mapping const& m, std::true_type) {
        typedef typename W::reference R;
        const int nc = pt::nch<R>::value;
        std::vector<unsigned char> before, mask;
        for (int k = 0; k < nc; ++k) {
            auto cv = gil::nth_channel_view(d, k);
            if (cv.width() != m.w || cv.height() != m.h) { vh::viol(key("nth-dims"), vh::cat("word=", m.word())); continue; }
            for (long y = 0; y < m.h; ++y)
                for (long x = 0; x < m.w; ++x) {
                    long sx, sy; m.map(x, y, sx, sy);
                    pt::pixid got = pt::id_of(cv(x, y));
                    pt::pixid const& want = s.at(sx, sy);
                    ++n_pix;
                    if (got.n != 1 || got.bitpos[0] != want.bitpos[k]) {
                        vh::viol(key("nth-identity"), vh::cat("word=", m.word(), ".nth_channel(", k, ") (", x, ",", y, ") is ", got.str(), " expected channel ", k, " of source(", sx, ",", sy, ")=", want.str()));
                        continue;
                    }
                    // channel write-through
                    before.assign(s.block, s.block + s.bytes);
                    pt::pixval one = pt::get_pix(cv(x, y)); pt::pixval inv = one; inv.ch[0] = ~inv.ch[0];
                    inv = pt::norm_pix<typename decltype(cv)::reference>(inv);
                    pt::set_pix(cv(x, y), inv);
                    ++n_writes;
                    allowed_mask(s, want, k, mask);
                    for (size_t i = 0; i < s.bytes; ++i)
                        if ((before[i] ^ s.block[i]) & ~mask[i]) { vh::viol(key("nth-write-elsewhere"), vh::cat("word=", m.word(), ".nth_channel(", k, ") write at (", x, ",", y, ") changed byte ", i)); break; }
                    if (pt::get_pix(s.src(sx, sy)).ch[k] != inv.ch[0]) vh::viol(key("nth-write-lost"), vh::cat("word=", m.word(), ".nth_channel(", k, ")"));
                    pt::set_pix(cv(x, y), one);
                }
        }
        raw_data_if_basic(d, m, std::is_same<W, view_t>());
        // kth_channel_view (compile-time channel) of the same derived view: must use the view's own x step
        kth_on_derived<0>(d, m);
        kth_on_derived<pt::nch<R>::value - 1>(d, m);
        ccv_check(d, m, std::integral_constant<bool, (ORG <= 11)>());
    }
    // raw data accessors exist for non-step memory views only: the image's view and its sub-images
    template <class W> void raw_data_if_basic(W const&, mapping const&, std::false_type) {}
    template <class W> void raw_data_if_basic(W const& d, mapping const& m, std::true_type) {
        raw_data(d, m, std::integral_constant<bool, gil::is_planar<W>::value>());
        mapping n = m; n.push(OP_SUBIMAGE);
        long x0, y0, sw, sh; sub_params(d.width(), d.height(), x0, y0, sw, sh);
        raw_data(sub_either(d, x0, y0, sw, sh), n, std::integral_constant<bool, gil::is_planar<W>::value>());
        typename W::const_t cd(d);
        raw_data(cd, m, std::integral_constant<bool, gil::is_planar<W>::value>());
    }
    // the pointer to the first channel of the view's first pixel / of plane k
    template <class W> void raw_data(W const& d, mapping const& m, std::false_type) {
        if (m.w == 0 || m.h == 0) return;
        long sx, sy; m.map(0, 0, sx, sy);
        pt::pixid const& want = s.at(sx, sy);
        uint64_t first = want.bitpos[0]; for (int c = 1; c < want.n; ++c) if (want.bitpos[c] < first) first = want.bitpos[c];
        ++n_pix;
        if ((uint64_t)(uintptr_t)gil::interleaved_view_get_raw_data(d) * 8 != first)
            vh::viol(key("raw-data-interleaved"), vh::cat("word=", m.word(), " interleaved_view_get_raw_data is not the first channel of derived(0,0)"));
    }
    template <class W> void raw_data(W const& d, mapping const& m, std::true_type) {
        if (m.w == 0 || m.h == 0) return;
        long sx, sy; m.map(0, 0, sx, sy);
        pt::pixid const& want = s.at(sx, sy);
        for (int k = 0; k < want.n; ++k) {
            ++n_pix;
            if ((uint64_t)(uintptr_t)gil::planar_view_get_raw_data(d, k) * 8 != want.bitpos[k])
                vh::viol(key("raw-data-planar"), vh::cat("word=", m.word(), " planar_view_get_raw_data(", k, ") is not plane ", k, " of derived(0,0)"));
        }
    }
    // colour conversion exists for the core colour spaces only (not for devicen)
    template <class W> void ccv_check(W const& d, mapping const& m, std::true_type) {
        // color_converted_view: value of the converted source pixel
        auto ccv = gil::color_converted_view<gil::gray8_pixel_t>(d);
        if (ccv.width() != m.w || ccv.height() != m.h) vh::viol(key("ccv-dims"), vh::cat("word=", m.word()));
        else
            for (long y = 0; y < m.h; ++y)
                for (long x = 0; x < m.w; ++x) {
                    long sx, sy; m.map(x, y, sx, sy);
                    gil::gray8_pixel_t want; gil::color_convert(s.src(sx, sy), want);
                    gil::gray8_pixel_t got = ccv(x, y);
                    ++n_pix;
                    if (!(got == want)) vh::viol(key("ccv-value"), vh::cat("word=", m.word(), " color_converted(", x, ",", y, ")=", (int)got[0], " expected ", (int)want[0]));
                }
        second_level_all(d, m, std::integral_constant<bool, (ORG == 1 || ORG == 2 || ORG == 9)>());
    }
    template <class W> void ccv_check(W const&, mapping const&, std::false_type) {}
    // 8-bit rgb organisations: channel views and converting views as the INNER letter of a word
    template <class W> void second_level_all(W const& d, mapping const& m, std::true_type) {
        if (m.steps.size() > 1) return;
        typedef typename W::reference R;
        const int nc = pt::nch<R>::value;
        for (int k = 0; k < nc; ++k) {
            // (a) nth_channel_view of a memory-based view, then a transformation
            auto cv = gil::nth_channel_view(d, k);
            second_level(cv, m, "nth-then", [&](long sx, long sy) { return (long)pt::get_pix(s.src(sx, sy)).ch[k]; });
            // (b) nth_channel_view of a colour-converting view (dereference adaptor carrying the channel index)
            auto conv = gil::color_converted_view<gil::rgb16_pixel_t>(d);
            auto cc = gil::nth_channel_view(conv, k);
            second_level(cc, m, "ccv-nth-then", [&](long sx, long sy) { gil::rgb16_pixel_t p; gil::color_convert(s.src(sx, sy), p); return (long)p[k]; });
        }
        // (c) a stateful user converter
        offset_cc occ = {37 + (int)(m.w * 3 + m.h)};
        auto ov = gil::color_converted_view<gil::gray8_pixel_t>(d, occ);
        second_level(ov, m, "ccv-stateful-then", [&](long sx, long sy) { return (long)(uint8_t)((int)gil::get_color(s.src(sx, sy), gil::red_t()) + occ.offset); });
    }
    template <class W> void second_level_all(W const&, mapping const&, std::false_type) {}
    template <class W> void channels(W const&, mapping const&, std::false_type) {}

    // transformations applied AFTER a channel view / a colour-converting (dereference adaptor) view:
    // the second-level view must still address channel k / convert with the caller's converter
    struct offset_cc {          // stateful converter: gray = red + offset (mod 256)
        int offset;
        template <class S, class D> void operator()(S const& src, D& dst) const { gil::get_color(dst, gil::gray_color_t()) = (uint8_t)((int)gil::get_color(src, gil::red_t()) + offset); }
    };
    template <class CV, class F> void second_level(CV const& cv, mapping const& m, const char* what, F expect) {
        if (cv.width() != m.w || cv.height() != m.h) return;
        {   // conversion between related adaptor types (view -> const_t) must keep the adaptor's state
            typename CV::const_t ccv(cv);
            for (long y = 0; y < m.h; ++y) for (long x = 0; x < m.w; ++x) {
                long sx, sy; m.map(x, y, sx, sy); ++n_pix;
                if ((long)ccv(x, y)[0] != expect(sx, sy)) { vh::viol(key(what), vh::cat("word=", m.word(), ".", what, ".const_t (", x, ",", y, ") reads ", (long)ccv(x, y)[0], " expected ", expect(sx, sy))); y = m.h; break; }
            }
            auto fl = gil::flipped_left_right_view(ccv);
            for (long y = 0; y < m.h; ++y) for (long x = 0; x < m.w; ++x) {
                long sx, sy; m.map(m.w - 1 - x, y, sx, sy); ++n_pix;
                if ((long)fl(x, y)[0] != expect(sx, sy)) { vh::viol(key(what), vh::cat("word=", m.word(), ".", what, ".const_t.flipLR (", x, ",", y, ")")); y = m.h; break; }
            }
        }
        static const int ops2[] = {OP_FLIPLR, OP_FLIPUD, OP_TRANSPOSE, OP_ROT90CW, OP_ROT180, OP_SS21, OP_SS23, OP_SUBIMAGE};
        for (int op : ops2) {
            mapping m2(m.w, m.h); m2.push(op);
            auto chk = [&](decltype(gil::subsampled_view(cv, 1, 1)) const& d2) {
                if (d2.width() != m2.w || d2.height() != m2.h) { vh::viol(key(what), vh::cat("word=", m.word(), ".", what, ".", op_name(op), " dims")); return; }
                for (long y = 0; y < m2.h; ++y) for (long x = 0; x < m2.w; ++x) {
                    long cx, cy; m2.map(x, y, cx, cy);         // position in the channel/converted view
                    long sx, sy; m.map(cx, cy, sx, sy);         // position in the source image
                    ++n_pix;
                    long got = (long)d2(x, y)[0], want = expect(sx, sy);
                    if (got != want) { vh::viol(key(what), vh::cat("word=", m.word(), ".", what, ".", op_name(op), " (", x, ",", y, ") reads ", got, " expected ", want, " (source ", sx, ",", sy, ")")); return; }
                }
            };
            long x0, y0, sw, sh;
            switch (op) {
            case OP_FLIPLR: chk(gil::subsampled_view(gil::flipped_left_right_view(cv), 1, 1)); break;
            case OP_FLIPUD: chk(gil::subsampled_view(gil::flipped_up_down_view(cv), 1, 1)); break;
            case OP_ROT180: chk(gil::rotated180_view(cv)); break;
            case OP_SS21: chk(gil::subsampled_view(cv, 2, 1)); break;
            case OP_SS23: chk(gil::subsampled_view(cv, 2, 3)); break;
            case OP_SUBIMAGE: sub_params(cv.width(), cv.height(), x0, y0, sw, sh); chk(gil::subsampled_view(gil::subimage_view(cv, x0, y0, sw, sh), 1, 1)); break;
            default: break;      // transposing letters change the static type: checked below
            }
        }
        {   mapping m2(m.w, m.h); m2.push(OP_TRANSPOSE);
            auto t = gil::transposed_view(cv);
            if (t.width() == m2.w && t.height() == m2.h)
                for (long y = 0; y < m2.h; ++y) for (long x = 0; x < m2.w; ++x) { long cx, cy, sx, sy; m2.map(x, y, cx, cy); m.map(cx, cy, sx, sy); ++n_pix;
                    if ((long)t(x, y)[0] != expect(sx, sy)) { vh::viol(key(what), vh::cat("word=", m.word(), ".", what, ".transposed (", x, ",", y, ")")); break; } } }
        {   mapping m2(m.w, m.h); m2.push(OP_ROT90CW);
            auto t = gil::rotated90cw_view(cv);
            if (t.width() == m2.w && t.height() == m2.h)
                for (long y = 0; y < m2.h; ++y) for (long x = 0; x < m2.w; ++x) { long cx, cy, sx, sy; m2.map(x, y, cx, cy); m.map(cx, cy, sx, sy); ++n_pix;
                    if ((long)t(x, y)[0] != expect(sx, sy)) { vh::viol(key(what), vh::cat("word=", m.word(), ".", what, ".rot90cw (", x, ",", y, ")")); break; } } }
    }

    template <int K, class W> void kth_on_derived(W const& d, mapping const& m) {
        auto cv = gil::kth_channel_view<K>(d);
        if (cv.width() != m.w || cv.height() != m.h) { vh::viol(key("kth-dims"), vh::cat("word=", m.word())); return; }
        for (long y = 0; y < m.h; ++y)
            for (long x = 0; x < m.w; ++x) {
                long sx, sy; m.map(x, y, sx, sy);
                pt::pixid got = pt::id_of(cv(x, y));
                pt::pixid const& want = s.at(sx, sy);
                ++n_pix;
                if (got.n != 1 || got.bitpos[0] != want.bitpos[K])
                    vh::viol(key("kth-identity"), vh::cat("word=", m.word(), ".kth_channel<", K, "> (", x, ",", y, ") is ", got.str(), " expected channel ", K, " of source(", sx, ",", sy, ")=", want.str()));
            }
    }
};

// kth_channel_view on heterogeneous (packed / bit-aligned) organisations: base view only
template <int K, class V> void kth_check(V const& v, srcinfo& s, std::true_type) {
    auto cv = gil::kth_channel_view<K>(v);
    for (long y = 0; y < v.height(); ++y)
        for (long x = 0; x < v.width(); ++x) {
            pt::pixid got = pt::id_of(cv(x, y));
            if (got.n != 1 || got.bitpos[0] != s.at(x, y).bitpos[K])
                vh::viol(key("kth-identity"), vh::cat("kth_channel<", K, "> (", x, ",", y, ") is ", got.str(), " expected ", s.at(x, y).str()));
            vh::evals(1);
        }
}
template <int K, class V> void kth_check(V const&, srcinfo&, std::false_type) {}

static void run_shape(long w, long h, size_t align, int depth) {
    image_t img(w, h, align);
    view_t v = gil::view(img);
    srcinfo s; s.w = w; s.h = h; s.seed = vh::seed(); s.src = v;
    s.block = nullptr; s.bytes = 0;
    if (!led::L().live.empty()) { auto& r = led::L().live.begin()->second; s.block = (unsigned char*)r.p; s.bytes = r.bytes; }
    pt::fill_pattern(v, s.seed, 0);
    s.id.resize((size_t)(w * h));
    for (long y = 0; y < h; ++y) for (long x = 0; x < w; ++x) s.id[(size_t)(y * w + x)] = pt::id_of(v(x, y));
    checker c(s);
    for_each_word(v, depth, c);

    // explicit algebraic identities on the dynamic type (same static type => operator== applies)
    typedef dyn<view_t>::type DV;
    DV d0 = to_dyn(v);
    auto same = [&](DV const& a, DV const& b, const char* what) {
        if (a.dimensions() != b.dimensions()) { vh::viol(key(what), "dimensions differ"); return; }
        if (!(a == b) && a.size() > 0) vh::viol(key(what), vh::cat("views compare unequal for ", w, "x", h));
        for (long y = 0; y < a.height(); ++y) for (long x = 0; x < a.width(); ++x)
            if (pt::id_of(a(x, y)) != pt::id_of(b(x, y))) { vh::viol(key(what), vh::cat("pixel identity differs at (", x, ",", y, ") for ", w, "x", h)); return; }
    };
    same(apply_dyn(apply_dyn(d0, OP_FLIPUD), OP_FLIPUD), d0, "law-flipUD2");
    same(apply_dyn(apply_dyn(d0, OP_FLIPLR), OP_FLIPLR), d0, "law-flipLR2");
    same(apply_dyn(apply_dyn(d0, OP_TRANSPOSE), OP_TRANSPOSE), d0, "law-transposed2");
    same(apply_dyn(apply_dyn(apply_dyn(apply_dyn(d0, OP_ROT90CW), OP_ROT90CW), OP_ROT90CW), OP_ROT90CW), d0, "law-rot90cw4");
    same(apply_dyn(d0, OP_ROT180), apply_dyn(apply_dyn(d0, OP_FLIPUD), OP_FLIPLR), "law-rot180");
    same(apply_dyn(apply_dyn(d0, OP_ROT90CW), OP_ROT90CCW), d0, "law-rot90-inverse");

    // kth_channel_view of a *packed* (byte-aligned, heterogeneous) pixel view is not provided by the
    // library (its dereference adaptor would need a C++ reference to a bit range); only bit-aligned
    // organisations are instantiated here
    const bool hetero = (ORG >= 16 && ORG <= 24);
    kth_check<0>(v, s, std::integral_constant<bool, hetero>());
    kth_check<(pt::nch<view_t::value_type>::value > 1 ? 1 : 0)>(v, s, std::integral_constant<bool, hetero>());
    kth_check<pt::nch<view_t::value_type>::value - 1>(v, s, std::integral_constant<bool, hetero>());

    vh::evals(c.n_pix + c.n_writes);
    vh::distinct(c.n_views);
    vh::count("views", c.n_views); vh::count("pixel_identity_checks", c.n_pix); vh::count("write_through_checks", c.n_writes);
}

int main(int argc, char** argv) {
    vh::init(argc, argv);
    g_org = org<ORG, led::alloc<unsigned char>>::name();
    const int N = vh::thorough() ? 12 : 6;
    const int depth = vh::thorough() ? 3 : 2;
    static const size_t aligns[] = {0, 4, 16, 0, 8};
    for (long h = 0; h <= N; ++h)
        for (long w = 0; w <= N; ++w) {
            size_t al = aligns[(w + 2 * h) % 5];
            if (!vh::begin_case(g_org, vh::cat(w, "x", h, "a", al))) continue;
            vh::sample(vh::cat(g_org, " ", w, "x", h, " align ", al, ": every word of {flipUD,flipLR,transposed,rot90cw,rot90ccw,rot180,subimage,subsampled(2,1),(1,2),(2,3)} up to depth ", depth, " x every (x,y)"));
            // larger shapes only at reduced depth to bound the thorough tier
            run_shape(w, h, al, (w * h > 64) ? std::min(depth, 2) : depth);
            if (!led::L().live.empty()) vh::viol(key("leak"), "image block still live after destruction");
            for (auto& a : led::L().anomalies) vh::viol(key("ledger"), a);
            led::L().anomalies.clear();
        }
    // a few large shapes at depth 1
    static const long big[][2] = {{33, 2}, {2, 33}, {17, 5}, {64, 3}};
    for (auto& b : big) {
        if (!vh::begin_case(g_org, vh::cat(b[0], "x", b[1], "a0"))) continue;
        run_shape(b[0], b[1], 0, 1);
    }
    return vh::finish();
}

#else  // ORG == 100: virtual locator ----------------------------------------------------
struct coord_fn {
    typedef gil::point_t point_t;
    typedef coord_fn const_t;
    typedef gil::rgb16_pixel_t value_type;
    typedef value_type reference;
    typedef value_type const_reference;
    typedef point_t argument_type;
    typedef reference result_type;
    static constexpr bool is_mutable = false;
    result_type operator()(point_t const& p) const { return value_type((uint16_t)(p.x + 1000), (uint16_t)(p.y + 2000), (uint16_t)(p.x * 31 + p.y)); }
};
typedef gil::virtual_2d_locator<coord_fn, false> vloc_t;
typedef gil::image_view<vloc_t> vview_t;

// stateful converter: gray16 = red + offset
struct voffset_cc {
    int offset;
    template <class S, class D> void operator()(S const& src, D& dst) const { gil::get_color(dst, gil::gray_color_t()) = (uint16_t)((int)gil::get_color(src, gil::red_t()) + offset); }
};
struct vchecker {
    uint64_t n_pix = 0, n_views = 0;
    long ox = 0, oy = 0, stx = 1, sty = 1;      // origin and step of the base locator
    gil::rgb16_pixel_t expect(long sx, long sy) const { return coord_fn()(gil::point_t(ox + stx * sx, oy + sty * sy)); }
    // a view with one 16-bit channel produced by a dereference adaptor on top of a derived virtual view
    template <class CV, class F> void chk_adapt(CV const& cv, mapping const& m, const char* what, F want) {
        ++n_views;
        if (cv.width() != m.w || cv.height() != m.h) { vh::viol(vh::cat(what, "-dims.virtual"), vh::cat("word=", m.word())); return; }
        for (long y = 0; y < m.h; ++y)
            for (long x = 0; x < m.w; ++x) {
                long sx, sy; m.map(x, y, sx, sy);
                ++n_pix;
                if ((long)cv(x, y)[0] != want(sx, sy)) { vh::viol(vh::cat(what, ".virtual"), vh::cat("word=", m.word(), " (", x, ",", y, ") reads ", (long)cv(x, y)[0], " expected ", want(sx, sy), " from source (", sx, ",", sy, ")")); return; }
            }
    }
    template <class CV, class F> void adapt_all(CV const& cv, mapping const& m, const char* what, F want) {
        chk_adapt(cv, m, what, want);
        { CV a; a = cv; chk_adapt(a, m, what, want); }
        typename CV::const_t ccv(cv);
        chk_adapt(ccv, m, what, want);
        { mapping n = m; n.push(OP_FLIPLR); chk_adapt(gil::flipped_left_right_view(cv), n, what, want); }
        { mapping n = m; n.push(OP_TRANSPOSE); chk_adapt(gil::transposed_view(cv), n, what, want); }
        { mapping n = m; n.push(OP_SS23); chk_adapt(gil::subsampled_view(cv, 2, 3), n, what, want); }
    }
    template <class W> void adaptors(W const& d, mapping const& m) {
        if (m.steps.size() > 2) return;
        for (int k = 0; k < 3; ++k) {
            adapt_all(gil::nth_channel_view(d, k), m, "adaptor-nth", [&](long sx, long sy) { return (long)expect(sx, sy)[k]; });
            auto conv = gil::color_converted_view<gil::bgr16_pixel_t>(d);
            adapt_all(gil::nth_channel_view(conv, k), m, "adaptor-ccv-nth", [&](long sx, long sy) { return (long)expect(sx, sy)[2 - k]; });
        }
        adapt_all(gil::kth_channel_view<2>(d), m, "adaptor-kth", [&](long sx, long sy) { return (long)expect(sx, sy)[2]; });
        voffset_cc cc = {41 + (int)(m.w * 3 + m.h)};
        adapt_all(gil::color_converted_view<gil::gray16_pixel_t>(d, cc), m, "adaptor-ccv-stateful", [&](long sx, long sy) { return (long)(uint16_t)((int)expect(sx, sy)[0] + cc.offset); });
    }
    template <class W> void check(W const& d, mapping const& m) {
        ++n_views;
        if (d.width() != m.w || d.height() != m.h) { vh::viol("dims.virtual", vh::cat("word=", m.word(), " derived ", d.width(), "x", d.height(), " expected ", m.w, "x", m.h)); return; }
        for (long y = 0; y < m.h; ++y)
            for (long x = 0; x < m.w; ++x) {
                long sx, sy; m.map(x, y, sx, sy);
                gil::rgb16_pixel_t p = d(x, y);
                ++n_pix;
                if (p[0] != ox + stx * sx + 1000 || p[1] != oy + sty * sy + 2000)
                    vh::viol("identity.virtual", vh::cat("word=", m.word(), " derived(", x, ",", y, ") yields position (", (long)p[0] - 1000, ",", (long)p[1] - 2000, ") expected (", ox + stx * sx, ",", oy + sty * sy, ")"));
            }
        {   // assignment and swap of views over virtual locators keep origin and step
            W a; a = d;
            W b(a), c; using std::swap; swap(b, c);
            bool ok = (c.width() == m.w && c.height() == m.h);
            for (long y = 0; ok && y < m.h; ++y)
                for (long x = 0; ok && x < m.w; ++x) {
                    gil::rgb16_pixel_t p = d(x, y), pa = a(x, y), pc = c(x, y);
                    ++n_pix;
                    if (!(pa == p) || !(pc == p)) ok = false;
                }
            if (!ok) vh::viol("assign-swap.virtual", vh::cat("word=", m.word(), " a view assigned from / swapped with this view does not yield the same pixels"));
        }
        adaptors(d, m);
    }
    // the closure of view types under the transformations is finite (transposed toggles one flag),
    // so plain template recursion with a run-time depth terminates at the type level
    template <class W> void rec(W const& v, mapping const& m, int depth) {
        check(v, m);
        if (depth <= 0) return;
        long x0, y0, sw, sh;
        { mapping n = m; n.push(OP_FLIPUD); rec(gil::flipped_up_down_view(v), n, depth - 1); }
        { mapping n = m; n.push(OP_FLIPLR); rec(gil::flipped_left_right_view(v), n, depth - 1); }
        { mapping n = m; n.push(OP_TRANSPOSE); rec(gil::transposed_view(v), n, depth - 1); }
        { mapping n = m; n.push(OP_ROT90CW); rec(gil::rotated90cw_view(v), n, depth - 1); }
        { mapping n = m; n.push(OP_ROT90CCW); rec(gil::rotated90ccw_view(v), n, depth - 1); }
        { mapping n = m; n.push(OP_ROT180); rec(gil::rotated180_view(v), n, depth - 1); }
        { mapping n = m; n.push(OP_SUBIMAGE); sub_params(v.width(), v.height(), x0, y0, sw, sh); rec(gil::subimage_view(v, x0, y0, sw, sh), n, depth - 1); }
        { mapping n = m; n.push(OP_SS21); rec(gil::subsampled_view(v, 2, 1), n, depth - 1); }
        { mapping n = m; n.push(OP_SS12); rec(gil::subsampled_view(v, 1, 2), n, depth - 1); }
        { mapping n = m; n.push(OP_SS23); rec(gil::subsampled_view(v, 2, 3), n, depth - 1); }
    }
};

int main(int argc, char** argv) {
    vh::init(argc, argv);
    g_org = "virtual";
    const int N = vh::thorough() ? 12 : 6;
    const int depth = vh::thorough() ? 3 : 2;
    for (long h = 0; h <= N; ++h)
        for (long w = 0; w <= N; ++w) {
            if (!vh::begin_case("virtual", vh::cat(w, "x", h))) continue;
            vview_t v(gil::point_t(w, h), vloc_t(gil::point_t(0, 0), gil::point_t(1, 1), coord_fn()));
            vchecker c;
            c.rec(v, mapping(w, h), depth);
            // a base locator with a non-zero origin and non-unit steps
            vchecker c2; c2.ox = 3; c2.oy = 5; c2.stx = 2; c2.sty = 3;
            vview_t v2(gil::point_t(w, h), vloc_t(gil::point_t(3, 5), gil::point_t(2, 3), coord_fn()));
            c2.rec(v2, mapping(w, h), depth > 2 ? 2 : depth);
            vh::evals(c.n_pix + c2.n_pix); vh::distinct(c.n_views + c2.n_views); vh::count("views", c.n_views + c2.n_views);
        }
    return vh::finish();
}
#endif
