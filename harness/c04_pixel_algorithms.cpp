// C04 -- pixel algorithms equal the obvious per-pixel loop for every layout pair, and modify nothing
// outside the destination view's pixels.
//
// -DFAM=f selects a family of mutually compatible view types ("type kinds", c04_kinds.hpp), -DPART=k the
// source kind of this TU; every writable kind of the family is a destination.  For every run-time
// variant pair (contiguous / padded rows / interior sub-view / flipped / stepped / transposed /
// bit offset ...) and every shape:
//   * the algorithm runs into arena A, the obvious `for y for x` loop into the byte-identical twin
//     arena B; A and B are compared whole; independently every bit of A outside the destination
//     pixels' own bits (pixel identity mask) must still hold its original value; the source arena
//     and the second-source arena must be unchanged;
//   * equal_pixels: true on the copy, false for a single flipped channel bit at EVERY position, true
//     when every bit outside the pixels of either view is inverted;
//   * functors record the identity/value sequence of their arguments: row-major, once per pixel;
//     functor results depend on the call index, so the order is visible in the destination, too.
// FAM 100: image operator== / != over image types with different alignments (ledger allocator blocks).
#include <boost/gil.hpp>
#include "common/vh.hpp"
#include "common/pixtools.hpp"
#include "common/ledger.hpp"
#include "c04_kinds.hpp"

#ifndef FAM
#define FAM 0
#endif
#ifndef PART
#define PART 0
#endif

namespace gil = boost::gil;
using namespace k4;

// ---- memcmp observation (ASan builds): the sanitizer runtime calls this weak hook from its memcmp interceptor
static volatile uint64_t g_memcmp_calls = 0;   // volatile: the compiler knows memcmp has no side effects and would fold the comparison of two reads
#if defined(__SANITIZE_ADDRESS__)
extern "C" void __sanitizer_weak_hook_memcmp(void*, const void*, const void*, size_t, int) { g_memcmp_calls = g_memcmp_calls + 1; }
#endif

// ---- arenas ---------------------------------------------------------------------------------------
struct buf {
    unsigned char* p; size_t n;
    explicit buf(size_t n_) : p((unsigned char*)malloc(n_)), n(n_) {}      // exact size: ASan red zone right behind
    ~buf() { free(p); }
    buf(buf const&) = delete; buf& operator=(buf const&) = delete;
    void random(vh::rng& r) { for (size_t i = 0; i < n; ++i) p[i] = (unsigned char)r.next(); }
    void copy_from(buf const& o) { if (n) memcpy(p, o.p, n); }
    bool same(buf const& o) const { return n == 0 || memcmp(p, o.p, n) == 0; }
};

static uint64_t g_harness_errors = 0;
static void harness_error(const std::string& what) { ++g_harness_errors; vh::viol("harness." + what, "the harness's own bookkeeping failed"); }

// bits of the arena that belong to pixels of v.  A view whose reference is a C++ reference stores whole
// pixel objects (pixel<T,L>, packed_pixel<BitField,...>): the object's bytes -- including bits of a packed
// pixel's bit field that no channel uses -- are the pixel.  Proxy references (planar, bit-aligned) own
// exactly their channels' bits.
static inline bool mask_bits(buf const& a, std::vector<unsigned char>& mask, uint64_t bitpos, uint64_t nbits) {
    for (uint64_t b = 0; b < nbits; ++b) {
        uint64_t bp = bitpos + b;
        uint64_t byte = (bp >> 3) - (uint64_t)(uintptr_t)a.p;
        if (byte >= a.n) return false;
        mask[(size_t)byte] |= (unsigned char)(1u << (bp & 7));
    }
    return true;
}
template <class V, class R> static bool mask_one(V const&, R const& r, buf const& a, std::vector<unsigned char>& mask, std::true_type) {
    return mask_bits(a, mask, (uint64_t)(uintptr_t)std::addressof(r) * 8, sizeof(typename V::value_type) * 8);
}
template <class V, class R> static bool mask_one(V const&, R const& r, buf const& a, std::vector<unsigned char>& mask, std::false_type) {
    pt::pixid id = pt::id_of(r);
    for (int c = 0; c < id.n; ++c) if (!mask_bits(a, mask, id.bitpos[c], id.bits[c])) return false;
    return true;
}
template <class V> static void pixel_mask(V const& v, buf const& a, std::vector<unsigned char>& mask) {
    mask.assign(a.n, 0);
    for (long y = 0; y < v.height(); ++y)
        for (long x = 0; x < v.width(); ++x)
            if (!mask_one(v, v(x, y), a, mask, std::is_reference<typename V::reference>())) { harness_error("mask-outside-arena"); return; }
}

template <class TK> struct inst {          // one view of kind TK over its own arena
    typedef typename TK::view_t view_t;
    typedef typename TK::mut_t::view_t mview_t;
    int var; long w, h;
    buf a, orig;
    view_t v; mview_t mv;
    std::vector<unsigned char> mask;
    inst(int var_, long w_, long h_, vh::rng& r, int round)
        : var(var_), w(w_), h(h_), a(TK::bytes(var_, w_, h_)), orig(TK::bytes(var_, w_, h_)) {
        a.random(r);
        v = TK::make(var, a.p, w, h);
        mv = TK::mut_t::make(var, a.p, w, h);
        if (v.width() != w || v.height() != h || mv.width() != w || mv.height() != h) harness_error("kind-dimensions");
        pt::fill_pattern(mv, r.next(), round);
        orig.copy_from(a);
        pixel_mask(mv, a, mask);
    }
    bool unchanged() const { return a.same(orig); }
};

template <class TK> struct twin {          // destination: arenas A (algorithm) and B (model loop)
    typedef typename TK::view_t view_t;
    int var; long w, h;
    buf A, B, orig;
    view_t a, b;
    std::vector<unsigned char> mask;
    twin(int var_, long w_, long h_, vh::rng& r)
        : var(var_), w(w_), h(h_), A(TK::bytes(var_, w_, h_)), B(TK::bytes(var_, w_, h_)), orig(TK::bytes(var_, w_, h_)) {
        A.random(r);
        a = TK::make(var, A.p, w, h);
        b = TK::make(var, B.p, w, h);
        pt::fill_pattern(a, r.next(), 9);
        orig.copy_from(A); B.copy_from(A);
        pixel_mask(a, A, mask);
    }
    void reset() { A.copy_from(orig); B.copy_from(orig); }
};

// ---- functors ---------------------------------------------------------------------------------------
struct recorder {
    std::vector<pt::pixid> ids; std::vector<pt::pixval> vals; uint64_t calls = 0;
    void clear() { ids.clear(); vals.clear(); calls = 0; }
};
template <class R> static inline void record(recorder* rec, R const& r, std::true_type) { rec->ids.push_back(pt::id_of(r)); rec->vals.push_back(pt::get_pix(r)); }
template <class R> static inline void record(recorder* rec, R const& r, std::false_type) { rec->vals.push_back(pt::get_pix(r)); }

template <class Out, class R> static inline void to_out(R const& r, Out& out, std::true_type) { out = r; }
template <class Out, class R> static inline void to_out(R const& r, Out& out, std::false_type) { gil::color_convert(r, out); }

template <class Out> static inline void scramble(Out& out, uint64_t k, pt::pixval const* other = nullptr) {
    pt::pixval v = pt::get_pix(out);
    for (int c = 0; c < v.n; ++c) v.ch[c] = vh::mix(v.ch[c] + (other ? other->ch[c] * 0x10001ull : 0), k * 8 + (uint64_t)c);
    pt::set_pix(out, pt::norm_pix<Out>(v));
}

// every functor carries run-time member state (salt) that its results depend on
template <class Out, bool Compat, bool HasId> struct xf1 {
    recorder* rec; uint64_t salt;
    typedef Out result_type;
    template <class R> Out operator()(R const& r) const {
        record(rec, r, std::integral_constant<bool, HasId>());
        Out out = Out(); to_out(r, out, std::integral_constant<bool, Compat>());
        scramble(out, salt + rec->calls++);
        return out;
    }
};
template <class Out, bool Compat, bool HasId> struct xf2 {
    recorder* rec; recorder* rec2; uint64_t salt;
    typedef Out result_type;
    template <class R1, class R2> Out operator()(R1 const& r1, R2 const& r2) const {
        record(rec, r1, std::integral_constant<bool, HasId>());
        record(rec2, r2, std::true_type());
        Out out = Out(); to_out(r1, out, std::integral_constant<bool, Compat>());
        Out o2 = Out(); o2 = r2;
        pt::pixval v2 = pt::get_pix(o2);
        scramble(out, salt + rec->calls++, &v2);
        return out;
    }
};
template <class Out, bool Compat, bool HasId> struct xfpos1 {
    xf1<Out, Compat, HasId> f;
    typedef Out result_type;
    template <class L> Out operator()(L const& loc) const { return f(*loc); }
};
template <class Out, bool Compat, bool HasId> struct xfpos2 {
    xf2<Out, Compat, HasId> f;
    typedef Out result_type;
    template <class L1, class L2> Out operator()(L1 const& l1, L2 const& l2) const { return f(*l1, *l2); }
};
template <bool HasId, bool Write> struct fe_fn {
    recorder* rec; uint64_t salt;
    template <class R> void operator()(R&& r) const {
        typedef typename std::remove_cv<typename std::remove_reference<R>::type>::type P;
        record(rec, r, std::integral_constant<bool, HasId>());
        uint64_t k = salt + rec->calls++;
        write(r, k, std::integral_constant<bool, Write>());
    }
    template <class R> void write(R&& r, uint64_t k, std::true_type) const {
        typedef typename std::remove_cv<typename std::remove_reference<R>::type>::type P;
        pt::pixval v = pt::get_pix(r);
        for (int c = 0; c < v.n; ++c) v.ch[c] = vh::mix(v.ch[c], k * 8 + (uint64_t)c);
        pt::set_pix(r, pt::norm_pix<P>(v));
    }
    template <class R> void write(R&&, uint64_t, std::false_type) const {}
};
template <bool HasId, bool Write> struct fepos_fn {
    fe_fn<HasId, Write> f;
    template <class L> void operator()(L const& loc) const { f(*loc); }
};
template <class Out> struct gen_fn {
    uint64_t seed; uint64_t* k;
    static Out value(uint64_t seed, uint64_t k) { Out o = Out(); pt::set_pix(o, pt::norm_pix<Out>(pt::pattern_pix(seed, 5, (long)k, 3, pt::nch<Out>::value))); return o; }
    Out operator()() const { return value(seed, (*k)++); }
};

// ---- the checks ---------------------------------------------------------------------------------------
static std::vector<std::pair<long, long>> g_shapes;
static int g_round = 0, g_rounds = 1;          // passes over the shapes with fresh random contents (--rounds; the native runs use 3)
static uint64_t g_sink = 0;

template <class V> static inline int t1d(V const& v) { return v.is_1d_traversable() ? 1 : 0; }

// expected argument sequence of a functor over view v: row-major
template <class V, bool HasId> static void check_order(std::string const& key, V const& v, recorder const& rec, std::string const& ctx) {
    const size_t n = (size_t)(v.width() * v.height());
    if (rec.vals.size() != n) { vh::viol(key + ".call-count", vh::cat(ctx, ": functor called ", rec.vals.size(), " times for ", n, " pixels")); return; }
    size_t i = 0;
    for (long y = 0; y < v.height(); ++y)
        for (long x = 0; x < v.width(); ++x, ++i) {
            if (HasId && rec.ids[i] != pt::id_of(v(x, y))) { vh::viol(key + ".call-order", vh::cat(ctx, ": call #", i, " received the pixel ", rec.ids[i].str(), ", row-major order expects (", x, ",", y, ")=", pt::id_of(v(x, y)).str())); return; }
        }
    vh::evals(n);
}
// the same, by value (pixels as they were before the algorithm ran); for kinds without identity
template <bool HasId> static void check_values(std::string const& key, std::vector<pt::pixval> const& expect, recorder const& rec, std::string const& ctx) {
    if (rec.vals.size() != expect.size()) return;   // reported by check_order
    for (size_t i = 0; i < expect.size(); ++i)
        if (rec.vals[i] != expect[i]) { vh::viol(key + ".call-value", vh::cat(ctx, ": call #", i, " received ", rec.vals[i].str(), ", row-major order expects ", expect[i].str())); return; }
}
template <class TK> struct inst;
template <class TK> static std::vector<pt::pixval> values_read(inst<TK> const& s) {
    std::vector<pt::pixval> o;
    for (long y = 0; y < s.h; ++y) for (long x = 0; x < s.w; ++x) o.push_back(pt::get_pix(reader<TK>::at(s, x, y)));
    return o;
}
template <class V> static std::vector<pt::pixval> values_of(V const& v) {
    std::vector<pt::pixval> o;
    for (long y = 0; y < v.height(); ++y) for (long x = 0; x < v.width(); ++x) o.push_back(pt::get_pix(v(x, y)));
    return o;
}

// whole-arena comparison + independent outside-the-pixels check
template <class D> static void check_dst(std::string const& key, twin<D>& d, std::string const& ctx) {
    bool outside = false; size_t at = 0;
    for (size_t i = 0; i < d.A.n; ++i)
        if ((d.A.p[i] ^ d.orig.p[i]) & ~d.mask[i]) { outside = true; at = i; break; }
    if (outside)
        vh::viol(key + ".outside", vh::cat(ctx, ": arena byte ", at, " of ", d.A.n, " changed from ", (int)d.orig.p[at], " to ", (int)d.A.p[at], "; destination pixel bits in that byte: mask ", (int)d.mask[at]));
    vh::evals(d.A.n + 1);
    if (d.A.same(d.B)) return;
    bool value = false;
    for (long y = 0; y < d.h && !value; ++y)
        for (long x = 0; x < d.w; ++x) {
            pt::pixval ga = pt::get_pix(d.a(x, y)), gb = pt::get_pix(d.b(x, y));
            if (ga != gb) { value = true; vh::viol(key + ".value", vh::cat(ctx, ": destination(", x, ",", y, ")=", ga.str(), ", the per-pixel loop gives ", gb.str())); break; }
        }
    if (value || outside) return;
    for (size_t i = 0; i < d.B.n; ++i)
        if ((d.B.p[i] ^ d.orig.p[i]) & ~d.mask[i]) { vh::viol(key + ".loop-outside", vh::cat(ctx, ": the per-pixel reference loop itself changed arena byte ", i, " outside the destination pixels")); return; }
    vh::obs("arena-differs-only-in-unused-bits-of-destination-pixels");
}

template <class S, class D, bool Compat> struct pair_check {
    typedef typename S::view_t SV; typedef typename D::view_t DV;
    typedef typename DV::value_type Out;
    static const bool HasId = S::has_identity;

    static std::string path(const char* algo, inst<S> const& s, twin<D> const& d) {
        return vh::cat(algo, ".", S::name(), ">", D::name(), ".s", t1d(s.v), "d", t1d(d.a));
    }
    static void model_assign(inst<S> const& s, DV const& b, std::true_type) {
        for (long y = 0; y < b.height(); ++y) for (long x = 0; x < b.width(); ++x) b(x, y) = reader<S>::at(s, x, y);
    }
    static void model_assign(inst<S> const& s, DV const& b, std::false_type) {
        for (long y = 0; y < b.height(); ++y) for (long x = 0; x < b.width(); ++x) { Out t = Out(); gil::color_convert(reader<S>::at(s, x, y), t); b(x, y) = t; }
    }
    // caller-supplied converter: applied on really converting pairs only (compatible pairs are documented to be a plain copy)
    static void model_assign_cc(inst<S> const& s, DV const& b, stateful_cc const& cc, std::true_type) { model_assign(s, b, std::true_type()); }
    static void model_assign_cc(inst<S> const& s, DV const& b, stateful_cc const& cc, std::false_type) {
        for (long y = 0; y < b.height(); ++y) for (long x = 0; x < b.width(); ++x) { Out t = Out(); cc(reader<S>::at(s, x, y), t); b(x, y) = t; }
    }
    static void side_effects(std::string const& key, inst<S>& s, inst<D>* c, std::string const& ctx) {
        if (!s.unchanged()) { vh::viol(key + ".source-modified", ctx); s.a.copy_from(s.orig); }
        if (c && !c->unchanged()) { vh::viol(key + ".source2-modified", ctx); c->a.copy_from(c->orig); }
    }

    static void copy(inst<S>& s, twin<D>& d, std::string const& ctx, std::true_type) {
        std::string k = path("copy", s, d);
        gil::copy_pixels(s.v, d.a);
        model_assign(s, d.b, std::true_type());
        check_dst(k, d, ctx); side_effects(k, s, nullptr, ctx);
        if (d.w && d.h) vh::obs(k);
        equal(s, d, ctx);
        d.reset();
    }
    static void copy(inst<S>&, twin<D>&, std::string const&, std::false_type) {}

    // d.B holds a copy of s made by the reference loop
    static void equal(inst<S>& s, twin<D>& d, std::string const& ctx) {
        std::string k = path("equal", s, d);
        vh::rng r = vh::case_rng((uint64_t)(d.w * 131 + d.h));
        uint64_t m0 = g_memcmp_calls;
        bool eq = gil::equal_pixels(s.v, d.b);
        if (g_memcmp_calls != m0) vh::obs(k + ".memcmp");
        if (!eq) { vh::viol(k + ".false-on-equal", vh::cat(ctx, ": equal_pixels(src, loop copy of src) returned false")); return; }
        if (d.w && d.h) vh::obs(k);
        buf saved(d.B.n); saved.copy_from(d.B);
        for (long y = 0; y < d.h; ++y)
            for (long x = 0; x < d.w; ++x) {
                pt::pixval old = pt::get_pix(d.b(x, y)); pt::pixid id = pt::id_of(d.b(x, y));
                int c = (int)r.below((uint64_t)old.n);
                unsigned nb = id.bits[c] < 16 ? id.bits[c] : 16;
                pt::pixval nw = old; nw.ch[c] ^= (1ull << r.below(nb));
                pt::set_pix(d.b(x, y), nw);
                if (pt::get_pix(d.b(x, y)) == old) { harness_error("perturbation-lost"); continue; }
                if (gil::equal_pixels(s.v, d.b))
                    vh::viol(k + ".true-on-differing-pixel", vh::cat(ctx, ": only pixel (", x, ",", y, ") differs: ", nw.str(), " vs ", old.str(), " (channel ", c, "), equal_pixels returned true"));
                pt::set_pix(d.b(x, y), old);
                vh::evals(1);
            }
        if (!d.B.same(saved)) { harness_error("perturbation-restore"); d.B.copy_from(saved); }
        // differences only outside the pixels of either view
        for (size_t i = 0; i < d.B.n; ++i) d.B.p[i] ^= (unsigned char)~d.mask[i];
        for (size_t i = 0; i < s.a.n; ++i) s.a.p[i] ^= (unsigned char)~s.mask[i];
        if (!gil::equal_pixels(s.v, d.b))
            vh::viol(k + ".false-on-padding", vh::cat(ctx, ": only bits outside the two views' pixels differ (row padding / around the sub-view / neighbouring bits), equal_pixels returned false"));
        vh::evals(1);
        d.B.copy_from(saved); s.a.copy_from(s.orig);
        signed_zero(k, s, d, ctx, r, std::is_same<typename DV::value_type, gil::rgb32f_pixel_t>());
        d.B.copy_from(saved); s.a.copy_from(s.orig);
    }
    // float channels: +0 and -0 are equal channel values (both inside [0,1]) with different bytes
    static void signed_zero(std::string const& k, inst<S>& s, twin<D>& d, std::string const& ctx, vh::rng& r, std::true_type) {
        if (!d.w || !d.h) return;
        long x = (long)r.below((uint64_t)d.w), y = (long)r.below((uint64_t)d.h);
        gil::at_c<0>(s.mv(x, y)) = gil::float32_t(0.0f);
        gil::at_c<0>(d.b(x, y)) = gil::float32_t(-0.0f);
        if (!(s.v(x, y) == d.b(x, y))) { harness_error("signed-zero-pixels-differ"); return; }
        if (!gil::equal_pixels(s.v, d.b))
            vh::viol(vh::cat("equal.", S::name(), ">", D::name(), ".false-on-signed-zero"), vh::cat(ctx, ": the views differ only in pixel (", x, ",", y, ") channel 0: +0.0f vs -0.0f; the two pixels compare equal, equal_pixels returned false"));
        vh::evals(1);
    }
    static void signed_zero(std::string const&, inst<S>&, twin<D>&, std::string const&, vh::rng&, std::false_type) {}

    static void run_shape(int sv, int dv, long w, long h, vh::rng& r) {
        inst<S> s(sv, w, h, r, 1);
        twin<D> d(dv, w, h, r);
        inst<D> c(dv, w, h, r, 2);          // second source, of the destination's kind
        std::string ctx = vh::cat(S::name(), "/", S::var(sv), " -> ", D::name(), "/", D::var(dv), " ", w, "x", h);
        const std::vector<pt::pixval> svals = values_read(s), cvals = values_of(c.v);
        const uint64_t salt = r.next();
        recorder rec, rec2;

        copy(s, d, ctx, std::integral_constant<bool, Compat>());

        {   std::string k = path("copy_and_convert", s, d);
            gil::copy_and_convert_pixels(s.v, d.a);
            model_assign(s, d.b, std::integral_constant<bool, Compat>());
            check_dst(k, d, ctx); side_effects(k, s, nullptr, ctx); if (w && h) vh::obs(k); d.reset(); }

        {   std::string k = path("copy_and_convert_cc", s, d);
            stateful_cc cc(1 + r.below(1000000));
            gil::copy_and_convert_pixels(s.v, d.a, cc);
            model_assign_cc(s, d.b, stateful_cc(cc.off), std::integral_constant<bool, Compat>());
            check_dst(k, d, ctx); side_effects(k, s, nullptr, ctx); if (w && h) vh::obs(k); d.reset(); }

        {   std::string k = path("transform1", s, d);
            xf1<Out, Compat, HasId> f = {&rec, salt}; rec.clear();
            gil::transform_pixels(s.v, d.a, f);
            check_order<typename S::mut_t::view_t, HasId>(k, s.mv, rec, ctx); check_values<HasId>(k, svals, rec, ctx);
            rec.clear(); xf1<Out, Compat, HasId> g = {&rec, salt};
            for (long y = 0; y < h; ++y) for (long x = 0; x < w; ++x) d.b(x, y) = g(reader<S>::at(s, x, y));
            check_dst(k, d, ctx); side_effects(k, s, nullptr, ctx); if (w && h) vh::obs(k); d.reset(); }

        {   std::string k = path("transform2", s, d);
            xf2<Out, Compat, HasId> f = {&rec, &rec2, salt}; rec.clear(); rec2.clear();
            gil::transform_pixels(s.v, c.v, d.a, f);
            check_order<typename S::mut_t::view_t, HasId>(k, s.mv, rec, ctx); check_values<HasId>(k, svals, rec, ctx);
            check_order<DV, true>(k + ".src2", c.v, rec2, ctx); check_values<true>(k + ".src2", cvals, rec2, ctx);
            rec.clear(); rec2.clear(); xf2<Out, Compat, HasId> g = {&rec, &rec2, salt};
            for (long y = 0; y < h; ++y) for (long x = 0; x < w; ++x) d.b(x, y) = g(reader<S>::at(s, x, y), c.v(x, y));
            check_dst(k, d, ctx); side_effects(k, s, &c, ctx); if (w && h) vh::obs(k); d.reset(); }

        {   std::string k = path("transform_pos1", s, d);
            xfpos1<Out, Compat, HasId> f = {{&rec, salt}}; rec.clear();
            gil::transform_pixel_positions(s.v, d.a, f);
            check_order<typename S::mut_t::view_t, HasId>(k, s.mv, rec, ctx); check_values<HasId>(k, svals, rec, ctx);
            rec.clear(); xf1<Out, Compat, HasId> g = {&rec, salt};
            for (long y = 0; y < h; ++y) for (long x = 0; x < w; ++x) d.b(x, y) = g(reader<S>::at(s, x, y));
            check_dst(k, d, ctx); side_effects(k, s, nullptr, ctx); if (w && h) vh::obs(k); d.reset(); }

        {   std::string k = path("transform_pos2", s, d);
            xfpos2<Out, Compat, HasId> f = {{&rec, &rec2, salt}}; rec.clear(); rec2.clear();
            gil::transform_pixel_positions(s.v, c.v, d.a, f);
            check_order<typename S::mut_t::view_t, HasId>(k, s.mv, rec, ctx); check_values<HasId>(k, svals, rec, ctx);
            check_order<DV, true>(k + ".src2", c.v, rec2, ctx);
            rec.clear(); rec2.clear(); xf2<Out, Compat, HasId> g = {&rec, &rec2, salt};
            for (long y = 0; y < h; ++y) for (long x = 0; x < w; ++x) d.b(x, y) = g(reader<S>::at(s, x, y), c.v(x, y));
            check_dst(k, d, ctx); side_effects(k, s, &c, ctx); if (w && h) vh::obs(k); d.reset(); }
        if (g_round == 0) vh::distinct(Compat ? 7 : 5);
    }

    static void run() {
        for (int sv = 0; sv < S::NVAR; ++sv)
            for (int dv = 0; dv < D::NVAR; ++dv) {
                if (!vh::begin_case(vh::cat(S::name(), ">", D::name()), vh::cat(S::var(sv), ">", D::var(dv)))) continue;
                vh::rng r = vh::case_rng();
                k4::cc_state() = 1 + r.below(1000000);
                vh::sample(vh::cat(S::name(), "/", S::var(sv), " -> ", D::name(), "/", D::var(dv), ": copy, copy_and_convert, equal (every single-pixel difference, padding-only difference), transform 1/2 sources, transform positions 1/2 sources; ", g_shapes.size(), " shapes; whole twin-arena comparison"));
                for (g_round = 0; g_round < g_rounds; ++g_round) for (auto& sh : g_shapes) run_shape(sv, dv, sh.first, sh.second, r);
            }
    }
};

// a pixel value type compatible with Out but with another channel order in memory (fill_pixels takes any compatible value)
template <class Out> struct twin_value { typedef Out type; };
template <> struct twin_value<gil::rgb8_pixel_t> { typedef gil::bgr8_pixel_t type; };
template <> struct twin_value<gil::bgr8_pixel_t> { typedef gil::rgb8_pixel_t type; };
template <> struct twin_value<gil::rgb16_pixel_t> { typedef gil::bgr16_pixel_t type; };
template <> struct twin_value<gil::rgb32f_pixel_t> { typedef gil::bgr32f_pixel_t type; };
template <> struct twin_value<gil::rgba8_pixel_t> { typedef gil::bgra8_pixel_t type; };
template <> struct twin_value<gil::bgra8_pixel_t> { typedef gil::rgba8_pixel_t type; };

// ---- single-view algorithms --------------------------------------------------------------------------
template <class D, bool Writable> struct single_check;
template <class D> struct single_check<D, true> {
    typedef typename D::view_t DV; typedef typename DV::value_type Out;
    static std::string path(const char* algo, twin<D> const& d) { return vh::cat(algo, ".", D::name(), ".d", t1d(d.a)); }
    static void run_shape(int dv, long w, long h, vh::rng& r) {
        twin<D> d(dv, w, h, r);
        std::string ctx = vh::cat(D::name(), "/", D::var(dv), " ", w, "x", h);
        recorder rec;
        const uint64_t salt = r.next();
        const std::vector<pt::pixval> dvals = values_of(d.a);
        {   std::string k = path("fill", d);
            Out px = Out(); pt::set_pix(px, pt::norm_pix<Out>(pt::rand_pix(r, pt::nch<Out>::value)));
            gil::fill_pixels(d.a, px);
            for (long y = 0; y < h; ++y) for (long x = 0; x < w; ++x) d.b(x, y) = px;
            check_dst(k, d, ctx); if (w && h) vh::obs(k); d.reset();
            typedef typename twin_value<Out>::type Out2;
            Out2 px2 = Out2(); px2 = px;
            gil::fill_pixels(d.a, px2);
            for (long y = 0; y < h; ++y) for (long x = 0; x < w; ++x) d.b(x, y) = px2;
            if (w && h && pt::get_pix(d.b(0, 0)) != pt::get_pix(px)) harness_error("twin-value");
            check_dst(k + ".twin-layout-value", d, ctx); d.reset(); }
        {   std::string k = path("generate", d);
            uint64_t seed = r.next(), n = 0;
            gen_fn<Out> g = {seed, &n};
            gil::generate_pixels(d.a, g);
            if (n != (uint64_t)(w * h)) vh::viol(k + ".call-count", vh::cat(ctx, ": generator called ", n, " times for ", w * h, " pixels"));
            for (long y = 0; y < h; ++y) for (long x = 0; x < w; ++x) d.b(x, y) = gen_fn<Out>::value(seed, (uint64_t)(y * w + x));
            check_dst(k, d, ctx); if (w && h) vh::obs(k); d.reset(); }
        {   std::string k = path("for_each", d);
            fe_fn<true, true> f = {&rec, salt}; rec.clear();
            gil::for_each_pixel(d.a, f);
            check_order<DV, true>(k, d.a, rec, ctx); check_values<true>(k, dvals, rec, ctx);
            rec.clear(); fe_fn<true, true> g = {&rec, salt};
            for (long y = 0; y < h; ++y) for (long x = 0; x < w; ++x) g(d.b(x, y));
            check_dst(k, d, ctx); if (w && h) vh::obs(k); d.reset(); }
        {   std::string k = path("for_each_pos", d);
            fepos_fn<true, true> f = {{&rec, salt}}; rec.clear();
            gil::for_each_pixel_position(d.a, f);
            check_order<DV, true>(k, d.a, rec, ctx); check_values<true>(k, dvals, rec, ctx);
            rec.clear(); fe_fn<true, true> g = {&rec, salt};
            for (long y = 0; y < h; ++y) for (long x = 0; x < w; ++x) g(d.b(x, y));
            check_dst(k, d, ctx); if (w && h) vh::obs(k); d.reset(); }
        if (g_round == 0) vh::distinct(4);
    }
    static void run() {
        for (int dv = 0; dv < D::NVAR; ++dv) {
            if (!vh::begin_case(vh::cat("single.", D::name()), D::var(dv))) continue;
            vh::rng r = vh::case_rng();
            for (g_round = 0; g_round < g_rounds; ++g_round) for (auto& sh : g_shapes) run_shape(dv, sh.first, sh.second, r);
        }
    }
};
// read-only kinds: for_each_pixel(_position) with a recording functor; the arena must not change
template <class S> struct single_check<S, false> {
    typedef typename S::view_t SV;
    static const bool HasId = S::has_identity;
    static void run_shape(int sv, long w, long h, vh::rng& r) {
        inst<S> s(sv, w, h, r, 3);
        std::string ctx = vh::cat(S::name(), "/", S::var(sv), " ", w, "x", h);
        const std::vector<pt::pixval> svals = values_read(s);
        const uint64_t salt = r.next();
        recorder rec;
        {   std::string k = vh::cat("for_each.", S::name(), ".d", t1d(s.v));
            fe_fn<HasId, false> f = {&rec, salt};
            gil::for_each_pixel(s.v, f);
            check_order<typename S::mut_t::view_t, HasId>(k, s.mv, rec, ctx); check_values<HasId>(k, svals, rec, ctx);
            if (!s.unchanged()) vh::viol(k + ".source-modified", ctx);
            if (w && h) vh::obs(k); }
        {   std::string k = vh::cat("for_each_pos.", S::name(), ".d", t1d(s.v));
            fepos_fn<HasId, false> f = {{&rec, salt}}; rec.clear();
            gil::for_each_pixel_position(s.v, f);
            check_order<typename S::mut_t::view_t, HasId>(k, s.mv, rec, ctx); check_values<HasId>(k, svals, rec, ctx);
            if (!s.unchanged()) vh::viol(k + ".source-modified", ctx);
            if (w && h) vh::obs(k); }
        if (g_round == 0) vh::distinct(2);
    }
    static void run() {
        for (int sv = 0; sv < S::NVAR; ++sv) {
            if (!vh::begin_case(vh::cat("single.", S::name()), S::var(sv))) continue;
            vh::rng r = vh::case_rng();
            k4::cc_state() = 1 + r.below(1000000);
            for (g_round = 0; g_round < g_rounds; ++g_round) for (auto& sh : g_shapes) run_shape(sv, sh.first, sh.second, r);
        }
    }
};

// ---- families ---------------------------------------------------------------------------------------
template <int I> struct TK;
#define DEF_TK(I, DST, ...) template <> struct TK<I> { typedef __VA_ARGS__ type; static const bool dst = DST; };

K4_TAG(t_rgb8, "rgb8"); K4_TAG(t_bgr8, "bgr8"); K4_TAG(t_rgb16, "rgb16"); K4_TAG(t_rgb32f, "rgb32f"); K4_TAG(t_gray8, "gray8"); K4_TAG(t_gray16, "gray16");
K4_TAG(t_cc_gray16, "cc-rgb8(gray16-ptr)"); K4_TAG(t_ccs_rgb16pl, "ccs-rgb8(rgb16-planar)"); K4_TAG(t_ccs_gray8, "ccs-rgb16(gray8-ptr)");
K4_TAG(t_dev2, "dev2x8"); K4_TAG(t_dev5, "dev5x8"); K4_TAG(t_rgba8, "rgba8"); K4_TAG(t_bgra8, "bgra8");
K4_TAG(t_p565, "packed565"); K4_TAG(t_ba565, "ba-rgb565"); K4_TAG(t_babgr565, "ba-bgr565");
K4_TAG(t_bag1, "ba-gray1"); K4_TAG(t_pg1, "packed-gray1");
K4_TAG(t_ba123, "ba-rgb123"); K4_TAG(t_babgr321, "ba-bgr321"); K4_TAG(t_p123, "packed-rgb123");

typedef ptr_tk<gil::rgb8_pixel_t, t_rgb8> rgb8_ptr;
typedef planar_tk<gil::rgb8_pixel_t, t_rgb8> rgb8_pl;
typedef ptr_tk<gil::bgr8_pixel_t, t_bgr8> bgr8_ptr;
typedef ptr_tk<gil::rgb16_pixel_t, t_rgb16> rgb16_ptr;
typedef gil::pixel<uint8_t, gil::devicen_layout_t<2>> dev2_pixel_t;
typedef gil::pixel<uint8_t, gil::devicen_layout_t<5>> dev5_pixel_t;
typedef ptr_tk<dev2_pixel_t, t_dev2> dev2_ptr;
typedef planar_tk<dev2_pixel_t, t_dev2> dev2_pl;
typedef ptr_tk<dev5_pixel_t, t_dev5> dev5_ptr;
typedef planar_tk<dev5_pixel_t, t_dev5> dev5_pl;
typedef ptr_tk<gil::rgba8_pixel_t, t_rgba8> rgba8_ptr;
typedef planar_tk<gil::rgba8_pixel_t, t_rgba8> rgba8_pl;
typedef ptr_tk<gil::bgra8_pixel_t, t_bgra8> bgra8_ptr;
typedef planar_tk<gil::rgb16_pixel_t, t_rgb16> rgb16_pl;
typedef ptr_tk<gil::rgb32f_pixel_t, t_rgb32f> rgb32f_ptr;
typedef planar_tk<gil::rgb32f_pixel_t, t_rgb32f> rgb32f_pl;
typedef ptr_tk<gil::gray8_pixel_t, t_gray8> gray8_ptr;
typedef ptr_tk<gil::gray16_pixel_t, t_gray16> gray16_ptr;
typedef gil::packed_image3_type<uint16_t, 5, 6, 5, gil::rgb_layout_t>::type p565_image;
typedef ptr_tk<p565_image::value_type, t_p565> p565_ptr;
typedef ba_tk<gil::bit_aligned_image3_type<5, 6, 5, gil::rgb_layout_t>::type, t_ba565> ba565;
typedef ba_tk<gil::bit_aligned_image3_type<5, 6, 5, gil::bgr_layout_t>::type, t_babgr565> babgr565;
typedef ba_tk<gil::bit_aligned_image1_type<1, gil::gray_layout_t>::type, t_bag1> bag1;
typedef ptr_tk<gil::packed_image1_type<uint8_t, 1, gil::gray_layout_t>::type::value_type, t_pg1> pg1_ptr;
typedef ba_tk<gil::bit_aligned_image3_type<1, 2, 3, gil::rgb_layout_t>::type, t_ba123> ba123;
typedef ba_tk<gil::bit_aligned_image3_type<3, 2, 1, gil::bgr_layout_t>::type, t_babgr321> babgr321;
typedef ptr_tk<gil::packed_image3_type<uint8_t, 1, 2, 3, gil::rgb_layout_t>::type::value_type, t_p123> p123_ptr;

#if FAM == 0        // 8-bit rgb: interleaved / planar / stepped / transposed / bgr twin / color-converted sources
static const char* FAMILY = "rgb8";
DEF_TK(0, true, rgb8_ptr)
DEF_TK(1, true, step_tk<rgb8_ptr>)
DEF_TK(2, true, transp_tk<rgb8_ptr>)
DEF_TK(3, true, rgb8_pl)
DEF_TK(4, true, step_tk<rgb8_pl>)
DEF_TK(5, true, transp_tk<rgb8_pl>)
DEF_TK(6, true, bgr8_ptr)
DEF_TK(7, false, const_tk<rgb8_ptr>)
DEF_TK(8, false, const_tk<rgb8_pl>)
DEF_TK(9, false, step_tk<bgr8_ptr>)
DEF_TK(10, false, cc_tk<gray16_ptr, gil::rgb8_pixel_t, t_cc_gray16>)
DEF_TK(11, false, cc_tk<rgb16_pl, gil::rgb8_pixel_t, t_ccs_rgb16pl, true>)     // color_converted_view(src, stateful converter)
static const int NTK = 12;
#elif FAM == 1      // 16-bit rgb: per-plane memcmp/memmove with sizeof(channel) > 1
static const char* FAMILY = "rgb16";
DEF_TK(0, true, rgb16_ptr)
DEF_TK(1, true, rgb16_pl)
DEF_TK(2, true, step_tk<rgb16_pl>)
DEF_TK(3, false, const_tk<rgb16_pl>)
static const int NTK = 4;
#elif FAM == 2      // float rgb
static const char* FAMILY = "rgb32f";
DEF_TK(0, true, rgb32f_ptr)
DEF_TK(1, true, rgb32f_pl)
static const int NTK = 2;
#elif FAM == 3      // 5-6-5: packed pixels and their bit-aligned twins
static const char* FAMILY = "rgb565";
DEF_TK(0, true, p565_ptr)
DEF_TK(1, true, step_tk<p565_ptr>)
DEF_TK(2, true, ba565)
DEF_TK(3, true, babgr565)
DEF_TK(4, false, const_tk<p565_ptr>)
DEF_TK(5, false, transp_tk<ba565>)
static const int NTK = 6;
#elif FAM == 4      // 1-bit gray
static const char* FAMILY = "gray1";
DEF_TK(0, true, bag1)
DEF_TK(1, true, step_tk<bag1>)
DEF_TK(2, true, transp_tk<bag1>)
DEF_TK(3, true, pg1_ptr)
DEF_TK(4, false, const_tk<bag1>)
static const int NTK = 5;
#elif FAM == 5      // 6-bit rgb 1-2-3
static const char* FAMILY = "rgb123";
DEF_TK(0, true, ba123)
DEF_TK(1, true, step_tk<ba123>)
DEF_TK(2, true, babgr321)
DEF_TK(3, true, p123_ptr)
DEF_TK(4, false, transp_tk<ba123>)
DEF_TK(5, false, const_tk<ba123>)
static const int NTK = 6;
#elif FAM == 7      // 2 channels (devicen<2>): the 2-element colour base behind the planar iterator
static const char* FAMILY = "dev2";
DEF_TK(0, true, dev2_ptr)
DEF_TK(1, true, dev2_pl)
DEF_TK(2, true, step_tk<dev2_pl>)
DEF_TK(3, false, const_tk<dev2_pl>)
static const int NTK = 4;
#elif FAM == 8      // 4 channels: rgba planar / interleaved / bgra twin
static const char* FAMILY = "rgba8";
DEF_TK(0, true, rgba8_ptr)
DEF_TK(1, true, rgba8_pl)
DEF_TK(2, true, step_tk<rgba8_pl>)
DEF_TK(3, true, bgra8_ptr)
DEF_TK(4, false, const_tk<rgba8_pl>)
DEF_TK(5, false, transp_tk<rgba8_pl>)
static const int NTK = 6;
#elif FAM == 9      // 5 channels (devicen<5>): the 5-element colour base
static const char* FAMILY = "dev5";
DEF_TK(0, true, dev5_ptr)
DEF_TK(1, true, dev5_pl)
DEF_TK(2, true, step_tk<dev5_pl>)
DEF_TK(3, true, transp_tk<dev5_pl>)
DEF_TK(4, false, const_tk<dev5_pl>)
DEF_TK(5, false, step_tk<dev5_ptr>)
static const int NTK = 6;
#elif FAM == 6      // converting copy_and_convert_pixels / transform between incompatible kinds (sources: PART 0..4)
static const char* FAMILY = "convert";
#define CONVERT_ONLY 1
DEF_TK(0, false, rgb8_ptr)
DEF_TK(1, false, step_tk<rgb8_pl>)
DEF_TK(2, false, ba123)
DEF_TK(3, false, p565_ptr)
DEF_TK(4, true, gray8_ptr)
DEF_TK(5, true, rgb16_pl)
DEF_TK(6, true, p565_ptr)
DEF_TK(7, true, bag1)
DEF_TK(8, true, step_tk<rgb8_ptr>)
DEF_TK(9, true, ba123)
static const int NTK = 10;
#endif
#ifndef CONVERT_ONLY
#define CONVERT_ONLY 0
#endif

#if FAM < 50
template <class S, int J, int N> struct for_dst {
    static void run() { go(std::integral_constant<bool, TK<J>::dst>()); for_dst<S, J + 1, N>::run(); }
    static void go(std::true_type) {
        typedef typename TK<J>::type D;
        typedef gil::pixels_are_compatible<typename S::view_t::value_type, typename D::view_t::value_type> compat;
        go2<D, compat::value>(std::integral_constant<bool, (CONVERT_ONLY && compat::value)>());
    }
    static void go(std::false_type) {}
    template <class D, bool C> static void go2(std::false_type) { pair_check<S, D, C>::run(); }
    template <class D, bool C> static void go2(std::true_type) {}
};
template <class S, int N> struct for_dst<S, N, N> { static void run() {} };

static void make_shapes() {
    const int N = vh::thorough() ? 9 : 6;
    for (long h = 0; h <= N; ++h) for (long w = 0; w <= N; ++w) g_shapes.push_back(std::make_pair(w, h));
    static const long big[][2] = {{17, 5}, {5, 17}, {33, 2}, {64, 3}, {3, 40}, {31, 9}};
    for (int i = 0; i < (vh::thorough() ? 6 : 3); ++i) g_shapes.push_back(std::make_pair(big[i][0], big[i][1]));
}

int main(int argc, char** argv) {
    vh::init(argc, argv);
    make_shapes(); g_rounds = (int)vh::opt_long("rounds", 1);
    typedef TK<PART>::type S;
    if (!CONVERT_ONLY) single_check<S, S::writable>::run();
    for_dst<S, 0, NTK>::run();
    if (g_sink == 0x123456789ull) printf("sink\n");
    return vh::finish();
}
#endif

#if FAM == 100
// ---- image operator== / operator!= --------------------------------------------------------------------
// Two images (possibly of different but compatible types, different row alignments => different padding
// and 1-D traversability) whose blocks come from the ledger allocator so that the padding is reachable.
typedef led::alloc<unsigned char> alloc_t;

template <class Img> struct img_box {
    Img img; buf a;               // 'a' aliases the image's allocation (not owned)
    std::vector<unsigned char> mask;
    static led::rec newest() { led::rec r = {nullptr, 0, 0, -1, nullptr}; for (auto& kv : led::L().live) if (kv.second.serial > r.serial) r = kv.second; return r; }
    img_box(long w, long h, size_t al, vh::rng& rg) : img(), a(0) {
        long before = led::L().serial;
        Img t(w, h, al); img.swap(t);
        led::rec r = newest();
        free(a.p); a.p = nullptr; a.n = 0;
        if (r.serial > before) { a.p = (unsigned char*)r.p; a.n = r.bytes; }
        for (size_t i = 0; i < a.n; ++i) a.p[i] = (unsigned char)rg.next();
        pt::fill_pattern(gil::view(img), rg.next(), 4);
        pixel_mask(gil::view(img), a, mask);
    }
    ~img_box() { a.p = nullptr; a.n = 0; }
};

template <class I1, class I2> struct image_eq {
    static void run_shape(std::string const& k, long w, long h, size_t a1, size_t a2, vh::rng& r) {
        std::string ctx = vh::cat(w, "x", h, " alignments ", a1, "/", a2);
        img_box<I1> x(w, h, a1, r); img_box<I2> y(w, h, a2, r);
        auto v1 = gil::view(x.img); auto v2 = gil::view(y.img);
        if (x.img.width() != w || x.img.height() != h || y.img.width() != w || y.img.height() != h) {
            // an image requested with one zero dimension reports 0x0 (C10's subject): nothing to compare here
            vh::count("degenerate_dimensions_lost"); return;
        }
        for (long j = 0; j < h; ++j) for (long i = 0; i < w; ++i) v2(i, j) = v1(i, j);
        uint64_t m0 = g_memcmp_calls;
        bool eq = (x.img == y.img);
        if (g_memcmp_calls != m0) vh::obs(k + ".memcmp");
        if (!eq || (x.img != y.img)) { vh::viol(k + ".false-on-equal", vh::cat(ctx, ": images with pixelwise equal contents compare unequal")); return; }
        if (!(x.img == x.img) || (y.img != y.img)) vh::viol(k + ".self", ctx);
        if (w && h) vh::obs(vh::cat(k, ".s", t1d(gil::const_view(x.img)), "d", t1d(gil::const_view(y.img))));
        for (long j = 0; j < h; ++j)
            for (long i = 0; i < w; ++i) {
                pt::pixval old = pt::get_pix(v2(i, j)); pt::pixid id = pt::id_of(v2(i, j));
                int c = (int)r.below((uint64_t)old.n);
                unsigned nb = id.bits[c] < 16 ? id.bits[c] : 16;
                pt::pixval nw = old; nw.ch[c] ^= (1ull << r.below(nb));
                pt::set_pix(v2(i, j), nw);
                if (pt::get_pix(v2(i, j)) == old) { harness_error("perturbation-lost"); continue; }
                if ((x.img == y.img) || !(x.img != y.img))
                    vh::viol(k + ".true-on-differing-pixel", vh::cat(ctx, ": only pixel (", i, ",", j, ") differs (channel ", c, "): images compare equal"));
                pt::set_pix(v2(i, j), old);
                vh::evals(2);
            }
        for (size_t i = 0; i < x.a.n; ++i) x.a.p[i] ^= (unsigned char)~x.mask[i];
        for (size_t i = 0; i < y.a.n; ++i) y.a.p[i] ^= (unsigned char)~y.mask[i];
        if (!(x.img == y.img) || (x.img != y.img))
            vh::viol(k + ".false-on-padding", vh::cat(ctx, ": only row padding / alignment slack differs: images compare unequal"));
        // different dimensions, same pixels in the common rectangle
        {   I2 z(w + 1, h, a2); I2 z2(w, h + 1, a2);
            if (z.width() == w + 1 && z.height() == h && z2.width() == w && z2.height() == h + 1) {
                for (long j = 0; j < h; ++j) for (long i = 0; i < w; ++i) { gil::view(z)(i, j) = v1(i, j); gil::view(z2)(i, j) = v1(i, j); }
                if (h > 0) for (long i = 0; i < w; ++i) gil::view(z2)(i, h) = v1(i, 0);
                if (w > 0) for (long j = 0; j < h; ++j) gil::view(z)(w, j) = v1(0, j);
                if ((x.img == z) || !(x.img != z)) vh::viol(k + ".true-on-other-dimensions", vh::cat(ctx, " vs ", w + 1, "x", h));
                if ((x.img == z2) || !(x.img != z2)) vh::viol(k + ".true-on-other-dimensions", vh::cat(ctx, " vs ", w, "x", h + 1));
            } }
        vh::evals(5); if (g_round == 0) vh::distinct(1);
    }
    static void run(const char* n1, const char* n2) {
        static const size_t als[] = {0, 1, 4, 16};
        std::string k = vh::cat("image-eq.", n1, ">", n2);
        for (int i = 0; i < 4; ++i)
            for (int j = 0; j < 4; ++j) {
                if (!vh::begin_case(k, vh::cat("a", als[i], ">a", als[j]))) continue;
                vh::rng r = vh::case_rng();
                vh::sample(vh::cat(k, " alignments ", als[i], "/", als[j], ": == / != on equal contents, every single-pixel difference, padding-only difference, other dimensions"));
                for (g_round = 0; g_round < g_rounds; ++g_round) for (auto& sh : g_shapes) run_shape(k, sh.first, sh.second, als[i], als[j], r);
                for (auto& a : led::L().anomalies) harness_error("ledger:" + a);
                led::L().anomalies.clear();
            }
    }
};

int main(int argc, char** argv) {
    vh::init(argc, argv);
    const int N = vh::thorough() ? 9 : 6; g_rounds = (int)vh::opt_long("rounds", 1);
    for (long h = 0; h <= N; ++h) for (long w = 0; w <= N; ++w) g_shapes.push_back(std::make_pair(w, h));
    g_shapes.push_back(std::make_pair(17L, 5L)); g_shapes.push_back(std::make_pair(5L, 17L)); g_shapes.push_back(std::make_pair(33L, 2L));
    typedef gil::image<gil::rgb8_pixel_t, false, alloc_t> rgb8_i;
    typedef gil::image<gil::rgb8_pixel_t, true, alloc_t> rgb8_p;
    typedef gil::image<gil::bgr8_pixel_t, false, alloc_t> bgr8_i;
    typedef gil::image<gil::rgb16_pixel_t, false, alloc_t> rgb16_i;
    typedef gil::image<gil::rgb16_pixel_t, true, alloc_t> rgb16_p;
    typedef gil::packed_image3_type<uint16_t, 5, 6, 5, gil::rgb_layout_t, alloc_t>::type p565_i;
    typedef gil::bit_aligned_image3_type<5, 6, 5, gil::rgb_layout_t, alloc_t>::type ba565_i;
    typedef gil::bit_aligned_image1_type<1, gil::gray_layout_t, alloc_t>::type bag1_i;
    typedef gil::bit_aligned_image3_type<1, 2, 3, gil::rgb_layout_t, alloc_t>::type ba123_i;
#if PART == 2
    typedef gil::image<dev5_pixel_t, true, alloc_t> dev5_p;
    typedef gil::image<dev5_pixel_t, false, alloc_t> dev5_i;
    typedef gil::image<dev2_pixel_t, true, alloc_t> dev2_p;
    typedef gil::image<gil::rgba8_pixel_t, true, alloc_t> rgba8_p;
    typedef gil::image<gil::bgra8_pixel_t, false, alloc_t> bgra8_i;
    image_eq<dev5_p, dev5_p>::run("dev5x8-planar", "dev5x8-planar");
    image_eq<dev5_p, dev5_i>::run("dev5x8-planar", "dev5x8");
    image_eq<rgba8_p, rgba8_p>::run("rgba8-planar", "rgba8-planar");
    image_eq<bgra8_i, rgba8_p>::run("bgra8", "rgba8-planar");
    image_eq<dev2_p, dev2_p>::run("dev2x8-planar", "dev2x8-planar");
#elif PART == 0
    image_eq<rgb8_i, rgb8_i>::run("rgb8", "rgb8");
    image_eq<rgb8_i, rgb8_p>::run("rgb8", "rgb8-planar");
    image_eq<rgb8_p, rgb8_p>::run("rgb8-planar", "rgb8-planar");
    image_eq<bgr8_i, rgb8_i>::run("bgr8", "rgb8");
    image_eq<rgb16_p, rgb16_p>::run("rgb16-planar", "rgb16-planar");
    image_eq<rgb16_p, rgb16_i>::run("rgb16-planar", "rgb16");
#else
    image_eq<p565_i, p565_i>::run("packed565", "packed565");
    image_eq<p565_i, ba565_i>::run("packed565", "ba-rgb565");
    image_eq<bag1_i, bag1_i>::run("ba-gray1", "ba-gray1");
    image_eq<ba123_i, ba123_i>::run("ba-rgb123", "ba-rgb123");
#endif
    return vh::finish();
}
#endif
