// C16 instantiation probe: threshold_binary / threshold_truncate on float32 channels (gray32f).
// The property quantifies over "all channel types"; this TU only has to compile.
#include <boost/gil.hpp>
#include <boost/gil/image_processing/threshold.hpp>
namespace gil = boost::gil;
int main() {
    gil::gray32f_image_t a(2, 2), b(2, 2);
    gil::fill_pixels(gil::view(a), gil::gray32f_pixel_t(0.5f));
#if C16_PROBE == 0
    gil::threshold_binary(gil::const_view(a), gil::view(b), gil::float32_t(0.25f), gil::float32_t(1.0f), gil::threshold_direction::regular);
#else
    gil::threshold_truncate(gil::const_view(a), gil::view(b), gil::float32_t(0.25f), gil::threshold_truncate_mode::zero, gil::threshold_direction::regular);
#endif
    return 0;
}
