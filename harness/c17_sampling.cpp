// C17 -- samplers interpolate within bounds, resample_pixels follows the mapping, matrix3x2 algebra.
//
// The real sample(nearest_neighbor_sampler|bilinear_sampler, ...) runs on every point of a fine grid
// over [-2,w+1]x[-2,h+1] (1/8 steps, every integer, +-2^-20 around every integer and half-integer
// line) for every source shape 1..5^2, on tight heap images (ASan red zones on both sides) and on
// sub-views whose surroundings hold the extreme values (a read outside the view leaves the convex
// hull).  Oracles: sentinel untouched on "outside"; result within the hull of the in-image
// neighbours and within tol of the edge-clamped bilinear formula (long double); exact at integer
// coordinates; nearest == src(round p) (either neighbour on ties).  resample_pixels / resize_view
// are compared, pixel by pixel and over the whole destination arena, with independent sample()
// calls; matrix3x2 algebra against hand formulas.
// See DESIGN.md section 5, C17.
#include <boost/gil.hpp>
#include <boost/gil/extension/numeric/sampler.hpp>
#include <boost/gil/extension/numeric/resample.hpp>
#include <boost/gil/extension/numeric/affine.hpp>
#include <algorithm>
#include <cmath>
#include <vector>
#include "common/vh.hpp"

#ifndef C17_PART
#define C17_PART 0
#endif

namespace gil = boost::gil;
typedef long double ld;

template <class F> static void V(const std::string& key, F detail) {
    auto& p = vh::st().viol_printed;
    auto it = p.find(key);
    if (it == p.end() || it->second < 3) vh::viol(key, detail());
    else vh::viol(key, "");
}

// ---- pixel type traits ---------------------------------------------------------------------------
template <class P> struct TT;
template <> struct TT<gil::gray8_pixel_t> {
    static const char* name() { return "gray8"; } static const bool is_float = false;
    static double tol() { return 1.0 + 1e-6; }
    static void set(gil::gray8_pixel_t& p, int c, double v) { p[c] = (uint8_t)v; }
    static double rnd(vh::rng& r, bool mid) { return mid ? r.range(64, 191) : r.range(0, 255); }
    static double lo() { return 0; } static double hi() { return 255; } static double sentinel() { return 0xA5; }
};
template <> struct TT<gil::rgb8_pixel_t> {
    static const char* name() { return "rgb8"; } static const bool is_float = false;
    static double tol() { return 1.0 + 1e-6; }
    static void set(gil::rgb8_pixel_t& p, int c, double v) { p[c] = (uint8_t)v; }
    static double rnd(vh::rng& r, bool mid) { return mid ? r.range(64, 191) : r.range(0, 255); }
    static double lo() { return 0; } static double hi() { return 255; } static double sentinel() { return 0xA5; }
};
template <> struct TT<gil::gray16_pixel_t> {
    static const char* name() { return "gray16"; } static const bool is_float = false;
    static double tol() { return 1.0 + 1e-6; }
    static void set(gil::gray16_pixel_t& p, int c, double v) { p[c] = (uint16_t)v; }
    static double rnd(vh::rng& r, bool mid) { return mid ? r.range(16384, 49151) : r.range(0, 65535); }
    static double lo() { return 0; } static double hi() { return 65535; } static double sentinel() { return 0xA5A5; }
};
template <> struct TT<gil::gray32f_pixel_t> {
    static const char* name() { return "gray32f"; } static const bool is_float = true;
    static double tol() { return 1e-5; }
    static void set(gil::gray32f_pixel_t& p, int c, double v) { p[c] = (float)v; }
    static double rnd(vh::rng& r, bool mid) { return mid ? (double)(float)(0.25 + 0.5 * r.unit()) : (double)(float)r.unit(); }
    static double lo() { return 0; } static double hi() { return 1; } static double sentinel() { return 0.123; }
};
// ---- wide channels: 32-bit integers and double hold values that float's 24-bit significand cannot represent
typedef gil::pixel<double, gil::gray_layout_t> gray64d_pixel_t;
typedef gil::pixel<double, gil::rgb_layout_t> rgb64d_pixel_t;
static double pick(vh::rng& r, const double* v, int n) { return v[r.below(n)]; }
static double rnd_u32(vh::rng& r, bool mid) {
    static const double sp[] = {0, 1, 16777217.0, 16777219.0, 33554433.0, 2147483647.0, 2147483648.0, 2147483649.0, 4294967295.0, 4294967294.0, 4278190081.0, 3000000001.0};
    static const double spm[] = {1073741824.0, 1090519041.0 /*2^30+2^24+1*/, 2147483647.0, 2147483648.0, 2147483649.0, 3221225471.0, 2164260865.0 /*2^31+2^24+1*/};
    if (mid) return r.coin() ? pick(r, spm, 7) : 1073741824.0 + (double)r.below(2147483648ull);
    return r.coin() ? pick(r, sp, 12) : (double)(r.next() & 0xffffffffull);
}
static double rnd_s32(vh::rng& r, bool mid) {
    static const double sp[] = {-2147483648.0, -2147483647.0, 2147483647.0, 2147483646.0, 16777217.0, -16777217.0, -1, 0, 1, 1073741825.0, -1073741825.0, 2130706433.0};
    if (mid) return r.coin() ? (r.coin() ? 16777217.0 : -1056964609.0) : (double)((long)r.below(2147483649ull) - 1073741824l);
    return r.coin() ? pick(r, sp, 12) : (double)(int32_t)(r.next() & 0xffffffffull);
}
static double rnd_f64(vh::rng& r, bool mid) {
    static const double sp[] = {9007199254740991.0, -9007199254740991.0, 9007199254740990.0, 16777217.0, -16777217.0, 0.1, 1e-3, 1.0 / 3, 123456789.125, 0, 4294967297.0, 4503599627370497.0, 1e-300};
    static const double spm[] = {16777217.0, -16777217.0, 0.1, 1.0 / 3, 123456789.125, 4294967297.0, 1e15 - 0.125, -1e15 + 0.375};
    if (mid) return r.coin() ? pick(r, spm, 8) : (2 * r.unit() - 1) * 1e15;
    return r.coin() ? pick(r, sp, 13) : (2 * r.unit() - 1) * std::ldexp(1.0, r.range(-20, 52));
}
#define WIDE_TT(P, NAME, CH, RND, LO, HI, SENT, TOL)                                                          \
    template <> struct TT<P> {                                                                                \
        static const char* name() { return NAME; } static const bool is_float = false;                       \
        static double tol() { return TOL; }                                                                   \
        static void set(P& p, int c, double v) { p[c] = (CH)v; }                                              \
        static double rnd(vh::rng& r, bool mid) { return RND(r, mid); }                                       \
        static double lo() { return LO; } static double hi() { return HI; } static double sentinel() { return SENT; } \
    };
// tol: 1 unit where the sampler truncates the double sum to an integer channel; 0 for double channels (nothing is
// truncated; only the rounding of the four weighted products and three additions remains, added per point below)
WIDE_TT(gil::gray32_pixel_t, "gray32", uint32_t, rnd_u32, 0, 4294967295.0, 2779096485.0, 1.0)
WIDE_TT(gil::rgb32_pixel_t, "rgb32", uint32_t, rnd_u32, 0, 4294967295.0, 2779096485.0, 1.0)
WIDE_TT(gil::gray32s_pixel_t, "gray32s", int32_t, rnd_s32, -2147483648.0, 2147483647.0, -1515870811.0, 1.0)
WIDE_TT(gray64d_pixel_t, "gray64d", double, rnd_f64, -9007199254740991.0, 9007199254740991.0, 0.123, 0.0)
WIDE_TT(rgb64d_pixel_t, "rgb64d", double, rnd_f64, -9007199254740991.0, 9007199254740991.0, 0.123, 0.0)
static std::string num(double v) { char b[40]; snprintf(b, sizeof b, "%.17g", v); return b; }

template <class P> static double chan(P const& p, int c) { return (double)(float)p[c]; }
template <> double chan(gil::gray32_pixel_t const& p, int c) { return (double)p[c]; }
template <> double chan(gil::rgb32_pixel_t const& p, int c) { return (double)p[c]; }
template <> double chan(gil::gray32s_pixel_t const& p, int c) { return (double)p[c]; }
template <> double chan(gray64d_pixel_t const& p, int c) { return p[c]; }
template <> double chan(rgb64d_pixel_t const& p, int c) { return p[c]; }
template <> double chan(gil::gray8_pixel_t const& p, int c) { return (double)p[c]; }
template <> double chan(gil::rgb8_pixel_t const& p, int c) { return (double)p[c]; }
template <> double chan(gil::gray16_pixel_t const& p, int c) { return (double)p[c]; }
template <class P> static std::string pstr(P const& p) { std::string s = "["; for (int c = 0; c < (int)gil::num_channels<P>::value; ++c) s += (c ? "," : "") + num(chan(p, c)); return s + "]"; }
template <class P> static P make_sentinel() { P p; for (int c = 0; c < (int)gil::num_channels<P>::value; ++c) TT<P>::set(p, c, TT<P>::sentinel()); return p; }
template <class P> static bool same(P const& a, P const& b) { for (int c = 0; c < (int)gil::num_channels<P>::value; ++c) if (chan(a, c) != chan(b, c)) return false; return true; }

// ---- a source: tight heap image, or a sub-view whose surroundings hold the extreme values --------
template <class P> struct source {
    typedef gil::image<P, false> image_t;
    typedef typename image_t::view_t view_t;
    image_t img; int w, h; bool sub;
    std::vector<double> vals;   // (y*w+x)*N+c : the harness's own copy
    static const int N = gil::num_channels<P>::value;
    void make(int w_, int h_, bool sub_, vh::rng& r) {
        w = w_; h = h_; sub = sub_;
        if (sub) {
            img.recreate(w + 2, h + 2, 0);
            auto f = gil::view(img);
            for (int y = 0; y < h + 2; ++y) for (int x = 0; x < w + 2; ++x) for (int c = 0; c < N; ++c) TT<P>::set(f(x, y), c, ((x + y + c) & 1) ? TT<P>::hi() : TT<P>::lo());
        } else img.recreate(w, h, 0);   // alignment 0: the allocation is exactly w*h pixels
        vals.assign((size_t)w * h * N, 0);
        auto v = view();
        for (int y = 0; y < h; ++y) for (int x = 0; x < w; ++x) for (int c = 0; c < N; ++c) { double val = TT<P>::rnd(r, sub); vals[((size_t)y * w + x) * N + c] = val; TT<P>::set(v(x, y), c, val); }
    }
    view_t view() { return sub ? gil::subimage_view(gil::view(img), 1, 1, w, h) : gil::view(img); }
    double at(long x, long y, int c) const { return vals[((size_t)y * w + x) * N + c]; }
};

static const char* region(long f, int n) { return f < -1 ? "before" : f == -1 ? "pre" : f + 1 < n ? "in" : f == n - 1 ? "last" : "after"; }

// 1-D sample coordinates for an extent n
static std::vector<double> coords(int n, int sub) {
    std::vector<double> v;
    for (int k = -2 * sub; k <= (n + 1) * sub; ++k) v.push_back((double)k / sub);
    const double eps = 1.0 / 1048576.0;
    for (int k = -4; k <= 2 * (n + 1); ++k) { v.push_back(k * 0.5 - eps); v.push_back(k * 0.5 + eps); }
    std::sort(v.begin(), v.end());
    v.erase(std::unique(v.begin(), v.end()), v.end());
    return v;
}

// ---- the sampler oracles ---------------------------------------------------------------------------
template <class P, class F> static void check_point(source<P>& s, typename source<P>::view_t const& v, double px, double py, const char* fname) {
    const int N = source<P>::N, w = s.w, h = s.h;
    const std::string tn = vh::cat(TT<P>::name(), ".", fname, s.sub ? ".subview" : ".tight");
    const long fx = (long)std::floor(px), fy = (long)std::floor(py);
    const std::string reg = vh::cat("x-", region(fx, w), ".y-", region(fy, h));
    const bool inside_rect = px >= 0 && px <= w - 1 && py >= 0 && py <= h - 1;
    auto what = [&] { return vh::cat(TT<P>::name(), " ", w, "x", h, s.sub ? " subview" : " tight", " p=(", px, ",", py, ") F=", fname); };
    const P sent = make_sentinel<P>();
    gil::point<F> p((F)px, (F)py);

    // ---------------- nearest neighbour
    {
        P res = sent;
        bool in = gil::sample(gil::nearest_neighbor_sampler{}, v, p, res);
        vh::evals(1);
        // nearest integer coordinates (two on a tie)
        long qx[2] = {(long)std::floor(px + 0.5), (long)std::ceil(px - 0.5)}, qy[2] = {(long)std::floor(py + 0.5), (long)std::ceil(py - 0.5)};
        bool any = false, match = false;
        for (long x : qx) for (long y : qy) if (x >= 0 && x < w && y >= 0 && y < h) {
            any = true; bool eq = true;
            for (int c = 0; c < N; ++c) if (chan(res, c) != s.at(x, y, c)) eq = false;
            if (eq) match = true;
        }
        if (in) {
            if (!any) V("nearest.true-outside." + tn + "." + reg, [&] { return vh::cat(what(), " reported inside although round(p) is outside the view; result=", pstr(res)); });
            else if (!match) V("nearest.value." + tn + "." + reg, [&] { return vh::cat(what(), " result=", pstr(res), " is not the source pixel at round(p)"); });
        } else {
            if (!same(res, sent)) V("nearest.false-touched." + tn + "." + reg, [&] { return vh::cat(what(), " reported outside but the result changed to ", pstr(res)); });
            if (inside_rect) V("nearest.false-inside." + tn + "." + reg, [&] { return vh::cat(what(), " reported outside although p lies inside the view"); });
        }
    }
    // ---------------- bilinear
    {
        P res = sent;
        bool in = gil::sample(gil::bilinear_sampler{}, v, p, res);
        vh::evals(1);
        vh::obs(vh::cat("bilinear.", reg, in ? ".true" : ".false"));
        // surrounding in-image pixels: the corners of the bilinear cell [floor p, floor p + 1] (the property's
        // "half-open borders": floor(p) in [-1,w-1] x [-1,h-1]; at p.x == -1 exactly the cell still touches column 0)
        long xs[2] = {fx, fx + 1}, ys[2] = {fy, fy + 1};
        bool any = false;
        double mn[4], mx[4];
        for (long x : xs) for (long y : ys) if (x >= 0 && x < w && y >= 0 && y < h) {
            for (int c = 0; c < N; ++c) { double a = s.at(x, y, c); if (!any || a < mn[c]) mn[c] = a; if (!any || a > mx[c]) mx[c] = a; if (!any) { mn[c] = mx[c] = a; } }
            any = true;
        }
        if (in) {
            if (!any) { V("bilinear.true-outside." + tn + "." + reg, [&] { return vh::cat(what(), " reported inside although no source pixel surrounds p; result=", pstr(res)); }); return; }
            // one unit because the sampler truncates (1e-5 for float channels), plus the rounding of the
            // weights in the coordinate type F (8 ulp of the channel range)
            // weights in the coordinate type F (4 weighted products + 3 additions, each rounded once: 8 ulp of the
            // largest surrounding magnitude -- derived from the documented formula, not from observed output)
            double maxabs = 0;
            for (int c = 0; c < N; ++c) maxabs = std::max(maxabs, std::max(std::fabs(mn[c]), std::fabs(mx[c])));
            const double tol = TT<P>::tol() + 8.0 * (double)std::numeric_limits<F>::epsilon() * maxabs;
            for (int c = 0; c < N; ++c) {
                double r = chan(res, c);
                if (r < mn[c] - tol || r > mx[c] + tol) { V("bilinear.hull." + tn + "." + reg, [&] { return vh::cat(what(), " channel ", c, " = ", num(r), " outside the range [", num(mn[c]), ",", num(mx[c]), "] of the surrounding source pixels"); }); break; }
            }
            // edge-clamped bilinear formula
            auto cl = [](long a, long n) { return a < 0 ? 0 : a >= n ? n - 1 : a; };
            const long x0 = cl(fx, w), x1 = cl(fx + 1, w), y0 = cl(fy, h), y1 = cl(fy + 1, h);
            const ld ax = (ld)px - (ld)fx, ay = (ld)py - (ld)fy;
            for (int c = 0; c < N; ++c) {
                ld f = (1 - ax) * (1 - ay) * s.at(x0, y0, c) + ax * (1 - ay) * s.at(x1, y0, c) + (1 - ax) * ay * s.at(x0, y1, c) + ax * ay * s.at(x1, y1, c);
                double r = chan(res, c);
                if (std::fabs((double)(r - f)) > tol) { V("bilinear.formula." + tn + "." + reg, [&] { return vh::cat(what(), " channel ", c, " = ", num(r), ", bilinear formula gives ", num((double)f), " (tolerance ", tol, ")"); }); break; }
            }
            if (px == std::floor(px) && py == std::floor(py) && fx >= 0 && fx < w && fy >= 0 && fy < h) {
                for (int c = 0; c < N; ++c) if (chan(res, c) != s.at(fx, fy, c)) { V("bilinear.integer-exact." + tn + "." + reg, [&] { return vh::cat(what(), " result=", pstr(res), " differs from the source pixel at the integer coordinate"); }); break; }
            }
        } else {
            if (!same(res, sent)) V("bilinear.false-touched." + tn + "." + reg, [&] { return vh::cat(what(), " reported outside but the result changed to ", pstr(res)); });
            if (inside_rect) V("bilinear.false-inside." + tn + "." + reg, [&] { return vh::cat(what(), " reported outside although p lies inside the view"); });
        }
    }
}

template <class P, class F> static void sampler_cases(const char* fname) {
    const int S = vh::thorough() ? 7 : 5;
    const int sub = vh::thorough() ? 16 : 8;
    const int rounds = vh::thorough() ? 2 : 1;
    for (int h = 1; h <= S; ++h) for (int w = 1; w <= S; ++w) for (int variant = 0; variant < 2; ++variant) {
        if (!vh::begin_case(vh::cat("sample.", TT<P>::name(), ".", fname, variant ? ".subview" : ".tight"), vh::cat(w, "x", h))) continue;
        vh::rng r = vh::case_rng();
        std::vector<double> xs = coords(w, sub), ys = coords(h, sub);
        for (int k = 0; k < rounds; ++k) {
            source<P> s; s.make(w, h, variant != 0, r);
            auto v = s.view();
            for (double py : ys) for (double px : xs) check_point<P, F>(s, v, px, py, fname);
        }
        vh::distinct((uint64_t)xs.size() * ys.size() * rounds * 2);
        if (w == 2 && h == 1) vh::sample(vh::cat("samplers: ", TT<P>::name(), " 2x1, ", xs.size(), "x", ys.size(), " sample points in [-2,3]x[-2,2] (1/", sub, " grid, integers, +-2^-20 around integer and half-integer lines)"));
    }
}

// ---- resample_pixels / resize_view ---------------------------------------------------------------
template <class P, class Sampler> static void resample_one(source<P>& s, int dw, int dh, gil::matrix3x2<double> const& m, const std::string& mapcls, const char* sname, vh::rng& r) {
    typedef gil::image<P, false> image_t;
    const int N = source<P>::N, Mg = 2;
    const P sent = make_sentinel<P>();
    image_t arena(dw + 2 * Mg, dh + 2 * Mg), model(dw + 2 * Mg, dh + 2 * Mg);
    gil::fill_pixels(gil::view(arena), sent); gil::fill_pixels(gil::view(model), sent);
    auto dst = gil::subimage_view(gil::view(arena), Mg, Mg, dw, dh);
    auto mdst = gil::subimage_view(gil::view(model), Mg, Mg, dw, dh);
    auto sv = s.view();
    const std::string cls = vh::cat(TT<P>::name(), ".", sname, ".", mapcls);
    auto what = [&] { return vh::cat(TT<P>::name(), " src ", s.w, "x", s.h, " dst ", dw, "x", dh, " ", sname, " map=", mapcls, " [", m.a, " ", m.b, " ", m.c, " ", m.d, " ", m.e, " ", m.f, "]"); };
    // model: an independent sample() per destination pixel at the mapped point
    long touched = 0;
    for (int y = 0; y < dh; ++y) for (int x = 0; x < dw; ++x) {
        gil::point<double> q = gil::transform(m, gil::point_t(x, y));
        // the mapped point itself against the documented formula
        ld ex = (ld)m.a * x + (ld)m.c * y + m.e, ey = (ld)m.b * x + (ld)m.d * y + m.f;
        ld sc = 1 + std::fabs((double)ex) + std::fabs((double)ey);
        if (std::fabs((double)(q.x - ex)) > 1e-12 * sc || std::fabs((double)(q.y - ey)) > 1e-12 * sc)
            V("transform.point." + mapcls, [&] { return vh::cat(what(), " transform(m,(", x, ",", y, ")) = (", q.x, ",", q.y, "), formula (", (double)ex, ",", (double)ey, ")"); });
        P res = sent;
        if (gil::sample(Sampler{}, sv, q, res)) ++touched;
        mdst(x, y) = res;
    }
    gil::resample_pixels(sv, dst, m, Sampler{});
    vh::evals(1);
    vh::obs(touched == 0 ? "resample.none-inside" : touched == (long)dw * dh ? "resample.all-inside" : "resample.some-inside");
    auto A = gil::view(arena), B = gil::view(model);
    for (int y = 0; y < dh + 2 * Mg; ++y) for (int x = 0; x < dw + 2 * Mg; ++x) if (!same(A(x, y), B(x, y))) {
        bool inside = x >= Mg && x < Mg + dw && y >= Mg && y < Mg + dh;
        if (inside) V("resample.pixel." + cls, [&] { return vh::cat(what(), " dst(", x - Mg, ",", y - Mg, ") = ", pstr(A(x, y)), ", sample at the mapped point gives ", pstr(B(x, y))); });
        else V("resample.outside-dst." + cls, [&] { return vh::cat(what(), " pixel outside the destination view changed at (", x - Mg, ",", y - Mg, ")"); });
        return;
    }
}

template <class P> static void resample_cases() {
    const int S = vh::thorough() ? 7 : 5;
    const int rounds = vh::thorough() ? 6 : 2;
    for (int h = 1; h <= S; ++h) for (int w = 1; w <= S; ++w) {
        if (!vh::begin_case(vh::cat("resample.", TT<P>::name()), vh::cat(w, "x", h))) continue;
        vh::rng r = vh::case_rng();
        for (int k = 0; k < rounds; ++k) {
            source<P> s; s.make(w, h, (k & 1) != 0, r);
            typedef gil::matrix3x2<double> M;
            struct { const char* cls; M m; } maps[] = {
                {"identity", M()},
                {"translate-int", M::get_translate(r.range(-2, 2), r.range(-2, 2))},
                {"translate-frac", M::get_translate(r.range(-16, 16) / 8.0, r.range(-16, 16) / 8.0)},
                {"scale-half", M::get_scale(0.5)},
                {"scale-dyadic", M::get_scale(r.range(1, 24) / 8.0, r.range(1, 24) / 8.0)},
                {"flip", M(-1, 0, 0, 1, w - 1, 0)},
                {"transpose", M(0, 1, 1, 0, 0, 0)},
                {"rotate", M::get_translate(-(w - 1) / 2.0, -(h - 1) / 2.0) * M::get_rotate(r.unit() * 6.283185307179586) * M::get_translate((w - 1) / 2.0, (h - 1) / 2.0)},
                {"affine-dyadic", M(r.range(-16, 16) / 8.0, r.range(-16, 16) / 8.0, r.range(-16, 16) / 8.0, r.range(-16, 16) / 8.0, r.range(-24, 24) / 8.0, r.range(-24, 24) / 8.0)},
                {"affine-random", M(2 * r.unit() - 1, 2 * r.unit() - 1, 2 * r.unit() - 1, 2 * r.unit() - 1, 6 * r.unit() - 3, 6 * r.unit() - 3)},
            };
            for (auto& mp : maps) {
                int dw = r.range(1, S + 1), dh = r.range(1, S + 1);
                resample_one<P, gil::nearest_neighbor_sampler>(s, dw, dh, mp.m, mp.cls, "nearest", r);
                resample_one<P, gil::bilinear_sampler>(s, dw, dh, mp.m, mp.cls, "bilinear", r);
            }
            vh::distinct(20);
            // resize_view to the same size is the identity, for both samplers
            for (int which = 0; which < 2; ++which) {
                typedef gil::image<P, false> image_t;
                image_t out(w, h);
                gil::fill_pixels(gil::view(out), make_sentinel<P>());
                if (which) gil::resize_view(s.view(), gil::view(out), gil::bilinear_sampler{}); else gil::resize_view(s.view(), gil::view(out), gil::nearest_neighbor_sampler{});
                vh::evals(1);
                auto sv = s.view(); auto ov = gil::view(out);
                for (int y = 0; y < h; ++y) for (int x = 0; x < w; ++x) if (!same(sv(x, y), ov(x, y))) {
                    V(vh::cat("resize-identity.", TT<P>::name(), which ? ".bilinear" : ".nearest"), [&] { return vh::cat(TT<P>::name(), " ", w, "x", h, " resize_view to the same size: dst(", x, ",", y, ") = ", pstr(ov(x, y)), ", src = ", pstr(sv(x, y))); });
                    y = h; break;
                }
            }
            vh::distinct(2);
        }
        if (w == 3 && h == 2) vh::sample(vh::cat("resample_pixels: ", TT<P>::name(), " 3x2 source, 10 map classes x 2 samplers into seeded destination sizes inside an arena; resize_view identity"));
    }
}

// ---- matrix3x2 algebra ----------------------------------------------------------------------------
typedef gil::matrix3x2<double> M;
static double mabs(M const& m) { return std::max({std::fabs(m.a), std::fabs(m.b), std::fabs(m.c), std::fabs(m.d), std::fabs(m.e), std::fabs(m.f)}); }
static bool mnear(M const& x, M const& y, double tol) {
    return std::fabs(x.a - y.a) <= tol && std::fabs(x.b - y.b) <= tol && std::fabs(x.c - y.c) <= tol && std::fabs(x.d - y.d) <= tol && std::fabs(x.e - y.e) <= tol && std::fabs(x.f - y.f) <= tol;
}
template <class T> static std::string mstrT(gil::matrix3x2<T> const& m) { return vh::cat("[", (double)m.a, " ", (double)m.b, " ", (double)m.c, " ", (double)m.d, " ", (double)m.e, " ", (double)m.f, "]"); }
static std::string mstr(M const& m) { return vh::cat("[", m.a, " ", m.b, " ", m.c, " ", m.d, " ", m.e, " ", m.f, "]"); }
static M rnd_matrix(vh::rng& r, int kind) {
    switch (kind) {
    case 0: return M(r.range(-16, 16) / 4.0, r.range(-16, 16) / 4.0, r.range(-16, 16) / 4.0, r.range(-16, 16) / 4.0, r.range(-40, 40) / 4.0, r.range(-40, 40) / 4.0);
    case 1: return M::get_rotate(r.unit() * 12.6 - 6.3);
    case 2: return M::get_scale(0.1 + 4 * r.unit(), 0.1 + 4 * r.unit()) * M::get_translate(20 * r.unit() - 10, 20 * r.unit() - 10);
    default: return M(8 * r.unit() - 4, 8 * r.unit() - 4, 8 * r.unit() - 4, 8 * r.unit() - 4, 20 * r.unit() - 10, 20 * r.unit() - 10);
    }
}
static void algebra_cases() {
    const int batches = vh::thorough() ? 100 : 20;
    for (int b = 0; b < batches; ++b) {
        if (!vh::begin_case("matrix3x2", vh::cat("batch=", b))) continue;
        vh::rng r = vh::case_rng();
        for (int i = 0; i < 1000; ++i) {
            M m1 = rnd_matrix(r, r.range(0, 3)), m2 = rnd_matrix(r, r.range(0, 3)), m3 = rnd_matrix(r, r.range(0, 3));
            gil::point<double> p(40 * r.unit() - 20, 40 * r.unit() - 20);
            const double sc = (1 + mabs(m1)) * (1 + mabs(m2)) * (1 + mabs(m3)) * (1 + std::fabs(p.x) + std::fabs(p.y));
            // operator* against the hand-written 3x3 product ([x y 1] row-vector convention)
            {
                M g = m1 * m2;
                M e((double)((ld)m1.a * m2.a + (ld)m1.b * m2.c), (double)((ld)m1.a * m2.b + (ld)m1.b * m2.d), (double)((ld)m1.c * m2.a + (ld)m1.d * m2.c), (double)((ld)m1.c * m2.b + (ld)m1.d * m2.d),
                    (double)((ld)m1.e * m2.a + (ld)m1.f * m2.c + m2.e), (double)((ld)m1.e * m2.b + (ld)m1.f * m2.d + m2.f));
                if (!mnear(g, e, 1e-12 * sc)) V("matrix.product", [&] { return vh::cat(mstr(m1), " * ", mstr(m2), " = ", mstr(g), ", expected ", mstr(e)); });
            }
            // associativity, and composition acting on points: p*(m1*m2) == (p*m1)*m2
            {
                M l = (m1 * m2) * m3, rr = m1 * (m2 * m3);
                if (!mnear(l, rr, 1e-11 * sc)) V("matrix.associative", [&] { return vh::cat("(m1*m2)*m3 = ", mstr(l), ", m1*(m2*m3) = ", mstr(rr)); });
                gil::point<double> a = p * (m1 * m2), bq = (p * m1) * m2;
                if (std::fabs(a.x - bq.x) > 1e-11 * sc || std::fabs(a.y - bq.y) > 1e-11 * sc) V("matrix.compose-point", [&] { return vh::cat("p*(m1*m2) = (", a.x, ",", a.y, "), (p*m1)*m2 = (", bq.x, ",", bq.y, ")"); });
                gil::point<double> t = gil::transform(m1, p);
                ld ex = (ld)m1.a * p.x + (ld)m1.c * p.y + m1.e, ey = (ld)m1.b * p.x + (ld)m1.d * p.y + m1.f;
                if (std::fabs((double)(t.x - ex)) > 1e-12 * sc || std::fabs((double)(t.y - ey)) > 1e-12 * sc) V("matrix.transform", [&] { return vh::cat("transform(", mstr(m1), ",(", p.x, ",", p.y, ")) = (", t.x, ",", t.y, ")"); });
            }
            // the three generators against hand formulas
            {
                double tx = 20 * r.unit() - 10, ty = 20 * r.unit() - 10, sx = 0.1 + 4 * r.unit(), sy = 0.1 + 4 * r.unit(), th = 12.6 * r.unit() - 6.3;
                gil::point<double> a = p * M::get_translate(tx, ty), a2 = p * M::get_translate(gil::point<double>(tx, ty));
                if (a.x != p.x + tx || a.y != p.y + ty || a2.x != a.x || a2.y != a.y) V("matrix.translate", [&] { return vh::cat("p=(", p.x, ",", p.y, ") translate(", tx, ",", ty, ") -> (", a.x, ",", a.y, ")"); });
                gil::point<double> s1 = p * M::get_scale(sx, sy), s2 = p * M::get_scale(gil::point<double>(sx, sy)), s3 = p * M::get_scale(sx);
                if (s1.x != p.x * sx || s1.y != p.y * sy || s2.x != s1.x || s2.y != s1.y || s3.x != p.x * sx || s3.y != p.y * sx) V("matrix.scale", [&] { return vh::cat("p=(", p.x, ",", p.y, ") scale(", sx, ",", sy, ") -> (", s1.x, ",", s1.y, ")"); });
                gil::point<double> q = p * M::get_rotate(th);
                ld c = std::cos((ld)th), s = std::sin((ld)th);
                ld ex = c * p.x - s * p.y, ey = s * p.x + c * p.y;
                if (std::fabs((double)(q.x - ex)) > 1e-12 * sc || std::fabs((double)(q.y - ey)) > 1e-12 * sc) V("matrix.rotate", [&] { return vh::cat("p=(", p.x, ",", p.y, ") rotate(", th, ") -> (", q.x, ",", q.y, "), expected (", (double)ex, ",", (double)ey, ")"); });
                // composition order as written: translate, then scale, then rotate
                gil::point<double> comp = p * (M::get_translate(tx, ty) * M::get_scale(sx, sy) * M::get_rotate(th));
                ld ux = ((ld)p.x + tx) * sx, uy = ((ld)p.y + ty) * sy;
                ld cx = c * ux - s * uy, cy = s * ux + c * uy;
                if (std::fabs((double)(comp.x - cx)) > 1e-11 * sc * 5 || std::fabs((double)(comp.y - cy)) > 1e-11 * sc * 5) V("matrix.compose-order", [&] { return vh::cat("p*(T*S*R) = (", comp.x, ",", comp.y, "), expected (", (double)cx, ",", (double)cy, ")"); });
            }
            // inverse
            {
                double det = m1.a * m1.d - m1.b * m1.c;
                if (std::fabs(det) > 1e-3) {
                    M inv = gil::inverse(m1);
                    M i1 = inv * m1, i2 = m1 * inv;
                    const double cond = (1 + mabs(m1)) * (1 + mabs(m1)) / std::fabs(det);
                    if (!mnear(i1, M(), 1e-9 * cond)) V("matrix.inverse-left", [&] { return vh::cat("inverse(m)*m = ", mstr(i1), " for m = ", mstr(m1), " det=", det); });
                    if (!mnear(i2, M(), 1e-9 * cond)) V("matrix.inverse-right", [&] { return vh::cat("m*inverse(m) = ", mstr(i2), " for m = ", mstr(m1), " det=", det); });
                    gil::point<double> back = (p * m1) * inv;
                    if (std::fabs(back.x - p.x) > 1e-9 * cond * (1 + std::fabs(p.x) + std::fabs(p.y)) || std::fabs(back.y - p.y) > 1e-9 * cond * (1 + std::fabs(p.x) + std::fabs(p.y)))
                        V("matrix.roundtrip", [&] { return vh::cat("p=(", p.x, ",", p.y, ") -> m -> inverse(m) = (", back.x, ",", back.y, ") for m = ", mstr(m1)); });
                    vh::obs("matrix.inverse-checked");
                } else vh::obs("matrix.singular-skipped");
            }
            vh::evals(1);
        }
        vh::distinct(1000);
        if (b == 0) vh::sample("matrix3x2<double>: 1000 seeded triples per batch: product, associativity, point composition, translate/scale/rotate formulas, inverse, round trip");
    }
}

// ---- every public way to build / compose a matrix3x2 against a long double 3x3 model -------------------
// Row-vector convention: [x y 1] * [[a b 0],[c d 0],[e f 1]].  The model multiplies full 3x3 matrices.
struct M3 {
    ld m[3][3];
    static M3 identity() { M3 r; for (int i = 0; i < 3; ++i) for (int j = 0; j < 3; ++j) r.m[i][j] = i == j; return r; }
    static M3 make(ld a, ld b, ld c, ld d, ld e, ld f) { M3 r = identity(); r.m[0][0] = a; r.m[0][1] = b; r.m[1][0] = c; r.m[1][1] = d; r.m[2][0] = e; r.m[2][1] = f; return r; }
    template <class T> static M3 of(gil::matrix3x2<T> const& g) { return make(g.a, g.b, g.c, g.d, g.e, g.f); }
    M3 operator*(M3 const& o) const { M3 r; for (int i = 0; i < 3; ++i) for (int j = 0; j < 3; ++j) { ld s = 0; for (int k = 0; k < 3; ++k) s += m[i][k] * o.m[k][j]; r.m[i][j] = s; } return r; }
    ld mag() const { ld v = 0; for (int i = 0; i < 3; ++i) for (int j = 0; j < 2; ++j) v = std::max(v, std::fabs(m[i][j])); return v; }
    void apply(ld x, ld y, ld& ox, ld& oy) const { ox = x * m[0][0] + y * m[1][0] + m[2][0]; oy = x * m[0][1] + y * m[1][1] + m[2][1]; }
    // inverse by cofactors of the full 3x3
    bool inverse(M3& out) const {
        ld det = m[0][0] * (m[1][1] * m[2][2] - m[1][2] * m[2][1]) - m[0][1] * (m[1][0] * m[2][2] - m[1][2] * m[2][0]) + m[0][2] * (m[1][0] * m[2][1] - m[1][1] * m[2][0]);
        if (det == 0) return false;
        for (int i = 0; i < 3; ++i) for (int j = 0; j < 3; ++j) {
            int r0 = (j + 1) % 3, r1 = (j + 2) % 3, c0 = (i + 1) % 3, c1 = (i + 2) % 3;
            out.m[i][j] = (m[r0][c0] * m[r1][c1] - m[r0][c1] * m[r1][c0]) / det;
        }
        return true;
    }
};
template <class T> static bool near_model(gil::matrix3x2<T> const& g, M3 const& e, double tol, std::string* why) {
    const ld got[6] = {g.a, g.b, g.c, g.d, g.e, g.f}, exp[6] = {e.m[0][0], e.m[0][1], e.m[1][0], e.m[1][1], e.m[2][0], e.m[2][1]};
    static const char* nm = "abcdef";
    for (int i = 0; i < 6; ++i) if (!(std::fabs((double)(got[i] - exp[i])) <= tol)) { if (why) *why = vh::cat("member ", nm[i], " = ", (double)got[i], ", model ", (double)exp[i]); return false; }
    return true;
}
template <class T> struct TN;
template <> struct TN<double> { static const char* name() { return "double"; } };
template <> struct TN<float> { static const char* name() { return "float"; } };

template <class T> static gil::matrix3x2<T> rnd_matrix_t(vh::rng& r) {
    typedef gil::matrix3x2<T> MT;
    switch (r.range(0, 4)) {
    case 0: return MT((T)(r.range(-16, 16) / 4.0), (T)(r.range(-16, 16) / 4.0), (T)(r.range(-16, 16) / 4.0), (T)(r.range(-16, 16) / 4.0), (T)(r.range(-40, 40) / 4.0), (T)(r.range(-40, 40) / 4.0));
    case 1: return MT::get_rotate((T)(r.unit() * 12.6 - 6.3));
    case 2: return MT::get_scale((T)(0.1 + 4 * r.unit()), (T)(0.1 + 4 * r.unit()));
    case 3: return MT::get_translate((T)(20 * r.unit() - 10), (T)(20 * r.unit() - 10));
    default: return MT((T)(8 * r.unit() - 4), (T)(8 * r.unit() - 4), (T)(8 * r.unit() - 4), (T)(8 * r.unit() - 4), (T)(20 * r.unit() - 10), (T)(20 * r.unit() - 10));
    }
}

template <class T> static void algebra_model_cases() {
    typedef gil::matrix3x2<T> MT;
    const std::string tn = TN<T>::name();
    const double eps = (double)std::numeric_limits<T>::epsilon();
    const int batches = vh::thorough() ? 50 : 10;
    for (int b = 0; b < batches; ++b) {
        if (!vh::begin_case("matrix3x2-model." + tn, vh::cat("batch=", b))) continue;
        vh::rng r = vh::case_rng();
        for (int i = 0; i < 1000; ++i) {
            const MT A = rnd_matrix_t<T>(r), B = rnd_matrix_t<T>(r), C = rnd_matrix_t<T>(r);
            const M3 a = M3::of(A), bm = M3::of(B), c = M3::of(C);
            const double sc = (double)((1 + a.mag()) * (1 + bm.mag()) * (1 + c.mag()));
            const double tol = 64 * eps * sc;
            std::string why;
            auto ctx = [&] { return vh::cat("A=", mstrT(A), " B=", mstrT(B), " C=", mstrT(C)); };
#define MCHK(KEY, G, E, TOL) do { if (!near_model((G), (E), (TOL), &why)) V(std::string("matrix-model.") + KEY + "." + tn, [&] { return vh::cat(KEY, ": ", why, "; ", ctx()); }); } while (0)
            // construction: default, 6 values, copy, assignment, self-assignment
            { MT d; MCHK("default-ctor", d, M3::identity(), 0.0); }
            { T v[6]; for (T& x : v) x = (T)(r.range(-64, 64) / 8.0); MT m(v[0], v[1], v[2], v[3], v[4], v[5]); MCHK("value-ctor", m, M3::make(v[0], v[1], v[2], v[3], v[4], v[5]), 0.0); }
            { MT cp(A); MCHK("copy-ctor", cp, a, 0.0); MT as; as = B; MCHK("assign", as, bm, 0.0); MT& ref = (as = as); MCHK("self-assign", as, bm, 0.0); if (&ref != &as) V("matrix-model.assign-returns-self." + tn, ctx); }
            // binary product and compound product, chains, aliasing, return value, argument untouched
            MCHK("product", A * B, a * bm, tol);
            { MT x = A; MT& ref = (x *= B); MCHK("compound", x, a * bm, tol); if (&ref != &x) V("matrix-model.compound-returns-self." + tn, ctx); }
            { MT x = A, y = B; x *= y; MCHK("compound-rhs-untouched", y, bm, 0.0); }
            { MT x = A; x *= B; x *= C; MCHK("compound-chain", x, (a * bm) * c, tol); MCHK("compound-chain-vs-binary", x, M3::of((A * B) * C), 8 * eps * sc); }
            { MT x = A; (x *= B) *= C; MCHK("compound-chain-ref", x, (a * bm) * c, tol); }
            { MT x = A; x *= x; MCHK("compound-alias", x, a * a, tol); }
            { MT x = A; x *= MT(); MCHK("compound-identity-right", x, a, 4 * eps * sc); MT y; y *= A; MCHK("compound-identity-left", y, a, 4 * eps * sc); }
            MCHK("product-assoc-left", (A * B) * C, (a * bm) * c, tol);
            MCHK("product-assoc-right", A * (B * C), a * (bm * c), tol);
            // generators, all overloads
            {
                T tx = (T)(20 * r.unit() - 10), ty = (T)(20 * r.unit() - 10), sx = (T)(0.1 + 4 * r.unit()), sy = (T)(0.1 + 4 * r.unit()), th = (T)(12.6 * r.unit() - 6.3);
                MCHK("translate-xy", MT::get_translate(tx, ty), M3::make(1, 0, 0, 1, tx, ty), 0.0);
                MCHK("translate-point", MT::get_translate(gil::point<T>(tx, ty)), M3::make(1, 0, 0, 1, tx, ty), 0.0);
                MCHK("scale-xy", MT::get_scale(sx, sy), M3::make(sx, 0, 0, sy, 0, 0), 0.0);
                MCHK("scale-point", MT::get_scale(gil::point<T>(sx, sy)), M3::make(sx, 0, 0, sy, 0, 0), 0.0);
                MCHK("scale-uniform", MT::get_scale(sx), M3::make(sx, 0, 0, sx, 0, 0), 0.0);
                ld cs = std::cos((ld)th), sn = std::sin((ld)th);
                MCHK("rotate", MT::get_rotate(th), M3::make(cs, sn, -sn, cs, 0, 0), 4 * eps);
                // the documented chain: translate, scale, rotate, translate back -- via *, via *= and mixed
                M3 chain = M3::make(1, 0, 0, 1, -tx, -ty) * M3::make(sx, 0, 0, sy, 0, 0) * M3::make(cs, sn, -sn, cs, 0, 0) * M3::make(1, 0, 0, 1, tx, ty);
                const double ctol = 256 * eps * (1 + std::fabs((double)tx) + std::fabs((double)ty)) * (1 + (double)sx + (double)sy);
                MCHK("chain-binary", MT::get_translate(-tx, -ty) * MT::get_scale(sx, sy) * MT::get_rotate(th) * MT::get_translate(tx, ty), chain, ctol);
                { MT x = MT::get_translate(-tx, -ty); x *= MT::get_scale(sx, sy); x *= MT::get_rotate(th); x *= MT::get_translate(tx, ty); MCHK("chain-compound", x, chain, ctol); }
            }
            // points: transform(mat, p) and p * mat for floating and integer points
            {
                gil::point<T> p((T)(40 * r.unit() - 20), (T)(40 * r.unit() - 20));
                gil::point<std::ptrdiff_t> q(r.range(-50, 50), r.range(-50, 50));
                ld ex, ey;
                const double ptol = 16 * eps * (1 + (double)a.mag()) * 60;
                a.apply(p.x, p.y, ex, ey);
                gil::point<T> t1 = gil::transform(A, p), t2 = p * A;
                if (std::fabs((double)(t1.x - ex)) > ptol || std::fabs((double)(t1.y - ey)) > ptol) V("matrix-model.transform-fpoint." + tn, [&] { return vh::cat("transform(A,(", (double)p.x, ",", (double)p.y, ")) = (", (double)t1.x, ",", (double)t1.y, "), model (", (double)ex, ",", (double)ey, "); ", ctx()); });
                if (t1.x != t2.x || t1.y != t2.y) V("matrix-model.point-times-matrix." + tn, [&] { return vh::cat("p*A = (", (double)t2.x, ",", (double)t2.y, ") != transform(A,p) = (", (double)t1.x, ",", (double)t1.y, "); ", ctx()); });
                a.apply(q.x, q.y, ex, ey);
                gil::point<T> t3 = gil::transform(A, q), t4 = q * A;
                if (std::fabs((double)(t3.x - ex)) > ptol || std::fabs((double)(t3.y - ey)) > ptol) V("matrix-model.transform-ipoint." + tn, [&] { return vh::cat("transform(A,(", q.x, ",", q.y, ")) = (", (double)t3.x, ",", (double)t3.y, "), model (", (double)ex, ",", (double)ey, "); ", ctx()); });
                if (t3.x != t4.x || t3.y != t4.y) V("matrix-model.ipoint-times-matrix." + tn, ctx);
                // composition acts on points in the written order: p*(A*B) == (p*A)*B, also through *=
                MT ab = A; ab *= B;
                gil::point<T> u = p * ab, v2 = (p * A) * B;
                ld mx, my; (a * bm).apply(p.x, p.y, mx, my);
                const double p2 = ptol * (1 + (double)bm.mag()) * 4;
                if (std::fabs((double)(u.x - mx)) > p2 || std::fabs((double)(u.y - my)) > p2 || std::fabs((double)(v2.x - mx)) > p2 || std::fabs((double)(v2.y - my)) > p2)
                    V("matrix-model.compose-point." + tn, [&] { return vh::cat("p*(A*=B) = (", (double)u.x, ",", (double)u.y, "), (p*A)*B = (", (double)v2.x, ",", (double)v2.y, "), model (", (double)mx, ",", (double)my, "); ", ctx()); });
            }
            // inverse against the cofactor inverse of the 3x3 model; argument passed by value stays intact
            {
                ld det = a.m[0][0] * a.m[1][1] - a.m[0][1] * a.m[1][0];
                if (std::fabs((double)det) > 1e-2) {
                    MT keep = A; MT inv = gil::inverse(keep);
                    MCHK("inverse-arg-untouched", keep, a, 0.0);
                    M3 im; a.inverse(im);
                    const double cond = (double)((1 + a.mag()) * (1 + a.mag()) / std::fabs((double)det));
                    MCHK("inverse", inv, im, 256 * eps * cond * (1 + (double)a.mag()));
                    MT x = A; x *= inv; MCHK("compound-inverse", x, M3::identity(), 1024 * eps * cond * (1 + (double)a.mag()));
                    vh::obs("matrix-model.inverse-checked." + tn);
                }
            }
#undef MCHK
            vh::evals(1);
        }
        vh::distinct(1000);
        if (b == 0) vh::sample(vh::cat("matrix3x2<", tn, "> against a long double 3x3 model: ctors, =, *, *= (chains, aliasing, return value), get_translate/scale/rotate overloads, transform, point*matrix, inverse; 1000 seeded triples per batch"));
    }
}

int main(int argc, char** argv) {
    vh::init(argc, argv);
#if C17_PART == 0
    sampler_cases<gil::gray8_pixel_t, double>("double");
    sampler_cases<gil::gray8_pixel_t, float>("float");
#elif C17_PART == 1
    sampler_cases<gil::rgb8_pixel_t, double>("double");
    sampler_cases<gil::gray16_pixel_t, double>("double");
#elif C17_PART == 2
    sampler_cases<gil::gray32f_pixel_t, double>("double");
    sampler_cases<gil::gray32f_pixel_t, float>("float");
#elif C17_PART == 3
    resample_cases<gil::gray8_pixel_t>();
    resample_cases<gil::rgb8_pixel_t>();
    resample_cases<gil::gray32f_pixel_t>();
    algebra_cases();
    algebra_model_cases<double>();
    algebra_model_cases<float>();
#elif C17_PART == 4
    // wide channels, double coordinates (with float coordinates the documented algorithm itself rounds channel*weight to 24 bits)
    sampler_cases<gil::gray32_pixel_t, double>("double");
    sampler_cases<gil::gray32s_pixel_t, double>("double");
    sampler_cases<gil::rgb32_pixel_t, double>("double");
#elif C17_PART == 5
    sampler_cases<gray64d_pixel_t, double>("double");
    sampler_cases<rgb64d_pixel_t, double>("double");
#elif C17_PART == 6
    resample_cases<gil::gray32_pixel_t>();
    resample_cases<gil::gray32s_pixel_t>();
    resample_cases<gray64d_pixel_t>();
#endif
    return vh::finish();
}
