// C13 -- all ways of reading one file agree: sub-rectangle reads == crop of the full read,
// read_and_convert_image<P> == pixelwise color_convert of the native read, scanline reader rows,
// read_view into a view inside an arena (nothing outside touched), any_image, file name vs FILE* vs
// std::istream, read_image_info dimensions, and a too-small destination view is rejected.
// One TU per format group (-DC13_PART=k):  0 bmp  1 pnm  2 targa  3 png 8-bit  4 jpeg  5 tiff gray8/rgb8
// 6 tiff rgba8/gray16  7 png 16-bit  8 tiff rgb16/gray32f  9 tiff gray1/gray4  10 png sub-byte
// A case = (file, path); files = repository fixtures + files written by GIL's writers + variants crafted
// by the harness (top-down BMP, ASCII PNM, interlaced PNG, tiled/compressed TIFF).
// See DESIGN.md section 5, C13.
#ifndef C13_PART
#error "compile with -DC13_PART=<k>"
#endif
#include <boost/gil.hpp>
#if C13_PART == 0
#include <boost/gil/extension/io/bmp.hpp>
#elif C13_PART == 1
#include <boost/gil/extension/io/pnm.hpp>
#elif C13_PART == 2
#include <boost/gil/extension/io/targa.hpp>
#elif C13_PART == 3 || C13_PART == 7 || C13_PART == 10
#include <boost/gil/extension/io/png.hpp>
#elif C13_PART == 4
#include <boost/gil/extension/io/jpeg.hpp>
#elif C13_PART == 5 || C13_PART == 6 || C13_PART == 8 || C13_PART == 9
#include <boost/gil/extension/io/tiff.hpp>
#define C13_TIFF 1
#endif
#include <algorithm>
#include <dirent.h>
#include "c12_io_common.hpp"

namespace gil = boost::gil;
using cio::membuf;

// ---- a file under test ---------------------------------------------------------------------------
struct file_t {
    std::string variant;     // finite, code-defined class of the file (goes into violation keys)
    std::string name;        // where it came from (case id, details)
    std::string bytes;
};

// ---- reading through the three device kinds -------------------------------------------------------
enum { D_STREAM = 0, D_FILE = 1, D_NAME = 2 };
static const char* dev_name(int d) { return d == D_STREAM ? "istream" : d == D_FILE ? "FILEptr" : "filename"; }
template <class Tag> struct has_file_ptr { static const bool value = true; };
#ifdef C13_TIFF
template <> struct has_file_ptr<gil::tiff_tag> { static const bool value = false; };   // no FILE* device for TIFF
#endif

template <class Img, class Settings>
static void read_fileptr(file_t const& f, Img& img, Settings const& s, std::true_type) {
    std::shared_ptr<membuf> m(new membuf); m->data = f.bytes;
    FILE* fp = cio::open_mem_read(m.get());      // GIL owns and closes fp
    gil::read_image(fp, img, s);
}
template <class Img, class Settings>
static void read_fileptr(file_t const&, Img&, Settings const&, std::false_type) {}

template <class Tag, class Img, class Settings>
static void read_via(int dev, file_t const& f, Img& img, Settings const& s) {
    if (dev == D_STREAM) {
        std::stringstream ss(f.bytes, std::ios::in | std::ios::binary);
        gil::read_image(ss, img, s);
    } else if (dev == D_FILE) {
        read_fileptr(f, img, s, std::integral_constant<bool, has_file_ptr<Tag>::value>());
    } else {
        cio::scratch_file sf("c13", "img");
        if (!cio::spill(sf.path, f.bytes)) vh::fatal_monitor("harness", "cannot write scratch file " + sf.path);
        gil::read_image(sf.path, img, s);
    }
}

// ---- semantic comparison of two views whose pixel types may differ in layout / alpha --------------
template <class VA, class VB>
static cio::diff_t compare_sem(VA const& va, VB const& vb) {
    cio::diff_t d;
    d.aw = va.width(); d.ah = va.height(); d.bw = vb.width(); d.bh = vb.height();
    if (d.aw != d.bw || d.ah != d.bh) { d.dims_differ = true; return d; }
    for (long y = 0; y < d.ah; ++y)
        for (long x = 0; x < d.aw; ++x) {
            uint64_t a[8], b[8];
            typename VA::value_type pa = va(x, y);
            typename VB::value_type pb = vb(x, y);
            int na = cio::pixel_sem_bits(pa, a), nb = cio::pixel_sem_bits(pb, b);
            int n = std::min(na, nb);
            bool bad = false;
            for (int i = 0; i < n && !bad; ++i) bad = a[i] != b[i];
            if (bad) {
                if (d.n == 0) { d.fx = x; d.fy = y; d.nc = n; memcpy(d.a, a, sizeof a); memcpy(d.b, b, sizeof b); }
                ++d.n;
            }
        }
    return d;
}

// ---- rectangle classes ------------------------------------------------------------------------------
struct rect_t { long x0, y0, dx, dy; };
static const char* XCLS[] = { "x0-fullw", "x0-shortw", "xoff-toright", "xoff-shortw" };
static const char* YCLS[] = { "y0-fullh", "y0-shorth", "yoff-tobottom", "yoff-shorth" };
static int axis_class(long N, long o, long d) { return o == 0 ? (d == N ? 0 : 1) : (o + d == N ? 2 : 3); }
// all (offset, extent) pairs of one axis class for a small extent; edge values + seeded ones otherwise
static std::vector<std::pair<long, long>> axis_ranges(long N, int cls, vh::rng& r) {
    std::vector<std::pair<long, long>> v;
    if (N <= 8) {
        for (long o = 0; o < N; ++o) for (long d = 1; d <= N - o; ++d) if (axis_class(N, o, d) == cls) v.push_back({ o, d });
        return v;
    }
    long k = vh::thorough() ? 10 : 2;
    switch (cls) {
    case 0: v.push_back({ 0, N }); break;
    case 1: v.push_back({ 0, 1 }); v.push_back({ 0, N - 1 }); v.push_back({ 0, N / 2 }); for (long i = 0; i < k; ++i) v.push_back({ 0, 1 + (long)r.below(N - 1) }); break;
    case 2: v.push_back({ 1, N - 1 }); v.push_back({ N - 1, 1 }); v.push_back({ N / 2, N - N / 2 }); for (long i = 0; i < k; ++i) { long o = 1 + (long)r.below(N - 1); v.push_back({ o, N - o }); } break;
    case 3: if (N >= 3) { v.push_back({ 1, 1 }); v.push_back({ 1, N - 2 }); v.push_back({ N - 2, 1 }); v.push_back({ N / 2, 1 });
                for (long i = 0; i < k; ++i) { long o = 1 + (long)r.below(N - 2); long d = 1 + (long)r.below(N - o - 1); v.push_back({ o, d }); } } break;
    }
    return v;
}
static std::string rect_class(long W, long H, long x0, long y0, long dx, long dy) {
    return vh::cat(XCLS[axis_class(W, x0, dx)], "-", YCLS[axis_class(H, y0, dy)]);
}
static std::vector<rect_t> rectangles(long W, long H, int xc, int yc, vh::rng& r) {
    std::vector<std::pair<long, long>> xs = axis_ranges(W, xc, r), ys = axis_ranges(H, yc, r);
    std::vector<rect_t> v;
    for (auto& y : ys) for (auto& x : xs) v.push_back({ x.first, y.first, x.second, y.second });
    return v;
}

// =====================================================================================================
// The checks for one file whose native type is Img (what read_image accepts without conversion) and whose
// scanline rows are laid out like the rows of ScanImg.
template <class Tag, class Img, class ScanImg, class AnyImg>
struct checks {
    typedef typename Img::view_t view_t;
    typedef typename view_t::value_type P;
    typedef gil::image_read_settings<Tag> settings_t;

    std::string fmt;
    file_t const& f;
    int any_index;               // expected alternative of AnyImg
    bool scanline_supported;     // false: the format's scanline reader documents that it rejects this variant
    checks(std::string const& fmt_, file_t const& f_, int ai, bool sl) : fmt(fmt_), f(f_), any_index(ai), scanline_supported(sl) {}

    std::string key(const char* oracle, std::string const& extra = "") const {
        return vh::cat(oracle, ".", fmt, ".", f.variant, extra.empty() ? "" : ".", extra);
    }
    bool full(Img& A) {
        try { read_via<Tag>(D_STREAM, f, A, Tag()); }
        catch (std::exception const& e) { vh::viol(key("full-read-exception"), vh::cat(f.name, ": ", e.what())); return false; }
        if (A.width() < 1 || A.height() < 1) { vh::viol(key("full-read-empty"), f.name); return false; }
        return true;
    }

    // (1) sub-rectangles of one (x class, y class)
    void subrect(int xc, int yc) {
        Img A; if (!full(A)) return;
        vh::rng r = vh::case_rng();
        long W = A.width(), H = A.height();
        std::vector<rect_t> rs = rectangles(W, H, xc, yc, r);
        std::string rc = vh::cat(XCLS[xc], "-", YCLS[yc]);
        long bad = 0;
        for (rect_t const& q : rs) {
            vh::evals(1);
            Img sub;
            try {
                settings_t s(gil::point_t(q.x0, q.y0), gil::point_t(q.dx, q.dy));
                read_via<Tag>(D_STREAM, f, sub, s);
            } catch (std::exception const& e) {
                vh::viol(key("subrect-exception", rc), vh::cat(f.name, " ", W, "x", H, " rect (", q.x0, ",", q.y0, ")+", q.dx, "x", q.dy, ": ", e.what()));
                continue;
            }
            cio::diff_t d = cio::compare_views(gil::subimage_view(gil::const_view(A), (int)q.x0, (int)q.y0, (int)q.dx, (int)q.dy), gil::const_view(sub));
            if (d.any()) { ++bad; vh::viol(key("subrect", rc), vh::cat(f.name, " ", W, "x", H, " rect (", q.x0, ",", q.y0, ")+", q.dx, "x", q.dy, ": ", d.str())); }
        }
        if (!rs.empty()) vh::obs("rect." + rc);
        vh::distinct(rs.size());
        if (!rs.empty()) vh::sample(vh::cat("subrect ", fmt, " ", f.name, " ", W, "x", H, " class ", rc, ": ", rs.size(), " rectangles, ", bad, " differ from the crop"));
    }

    // (2) read_and_convert_image<Q> == color_convert(A) pixelwise
    template <class Q> void convert_to(Img const& A, const char* qname) {
        gil::image<Q, false> C;
        vh::evals(1);
        try {
            std::stringstream ss(f.bytes, std::ios::in | std::ios::binary);
            gil::read_and_convert_image(ss, C, Tag());
        } catch (std::exception const& e) { vh::viol(key("convert-exception", qname), vh::cat(f.name, ": ", e.what())); return; }
        if (C.width() != A.width() || C.height() != A.height()) { vh::viol(key("convert-dims", qname), vh::cat(f.name, ": ", C.width(), "x", C.height(), " vs ", A.width(), "x", A.height())); return; }
        long bad = 0, fx = 0, fy = 0; uint64_t e[8], g[8]; int nc = 0;
        for (long y = 0; y < A.height(); ++y) for (long x = 0; x < A.width(); ++x) {
            P a = gil::const_view(A)(x, y);
            Q want; gil::color_convert(a, want);
            Q got = gil::const_view(C)(x, y);
            uint64_t wa[8], ga[8]; int n = cio::pixel_bits(want, wa); cio::pixel_bits(got, ga);
            bool b = false; for (int i = 0; i < n; ++i) b = b || wa[i] != ga[i];
            if (b) { if (!bad) { fx = x; fy = y; nc = n; memcpy(e, wa, sizeof e); memcpy(g, ga, sizeof g); } ++bad; }
        }
        if (bad) {
            std::ostringstream os; os << f.name << " -> " << qname << ": " << bad << " pixels differ; first at (" << fx << "," << fy << ") color_convert gives [";
            for (int i = 0; i < nc; ++i) os << (i ? "," : "") << e[i];
            os << "] read_and_convert_image gives [";
            for (int i = 0; i < nc; ++i) os << (i ? "," : "") << g[i];
            os << "]";
            vh::viol(key("convert", qname), os.str());
        }
        vh::distinct(1);
    }
    // converting read of a sub-rectangle == the same rectangle of the converting read of the whole file (what
    // the conversion itself gives is judged by convert_to above, so its known findings are not raised twice).
    // One case per destination type: a fatal report for one must not hide the others.
    template <class Q> void convert_sub_to(Img const& A, const char* qname) {
        typedef gil::image<Q, false> qimg_t;
        long W = A.width(), H = A.height();
        if (W < 2 || H < 2) return;
        long x0 = std::max(1L, W / 3), y0 = std::max(1L, H / 4), dx = std::max(1L, (W - x0) / 2), dy = std::max(1L, (H - y0) * 2 / 3);
        qimg_t C, S;
        vh::evals(1); vh::distinct(1);
        try { std::stringstream ss(f.bytes, std::ios::in | std::ios::binary); gil::read_and_convert_image(ss, C, Tag()); } catch (std::exception const&) { return; }   // reported by convert_to
        try { std::stringstream ss(f.bytes, std::ios::in | std::ios::binary); gil::read_and_convert_image(ss, S, settings_t(gil::point_t(x0, y0), gil::point_t(dx, dy))); }
        catch (std::exception const& e) { vh::viol(key("convert-subrect-exception", qname), vh::cat(f.name, ": ", e.what())); return; }
        cio::diff_t d = cio::compare_views(gil::subimage_view(gil::const_view(C), (int)x0, (int)y0, (int)dx, (int)dy), gil::const_view(S));
        if (d.any()) vh::viol(key("convert-subrect", qname), vh::cat(f.name, " ", W, "x", H, " -> ", qname, " rect (", x0, ",", y0, ")+", dx, "x", dy, ": ", d.str()));
        // and into a view of exactly that size
        qimg_t V(dx, dy);
        try { std::stringstream ss(f.bytes, std::ios::in | std::ios::binary); gil::read_and_convert_view(ss, gil::view(V), settings_t(gil::point_t(x0, y0), gil::point_t(dx, dy))); }
        catch (std::exception const& e) { vh::viol(key("convert-subrect-exception", vh::cat(qname, "-view")), vh::cat(f.name, ": ", e.what())); return; }
        cio::diff_t d2 = cio::compare_views(gil::subimage_view(gil::const_view(C), (int)x0, (int)y0, (int)dx, (int)dy), gil::const_view(V));
        if (d2.any()) vh::viol(key("convert-subrect", vh::cat(qname, "-view")), vh::cat(f.name, " ", W, "x", H, " rect (", x0, ",", y0, ")+", dx, "x", dy, ": ", d2.str()));
        vh::obs("convert.subrect");
    }
    static const char* convert_dst(int k) { static const char* n[] = { "", "gray8", "rgb8", "rgba8", "rgb16", "gray32f" }; return n[k]; }
    void convert(int sub) {
        Img A; if (!full(A)) return;
        switch (sub) {
        case 1: convert_sub_to<gil::gray8_pixel_t>(A, "gray8"); return;
        case 2: convert_sub_to<gil::rgb8_pixel_t>(A, "rgb8"); return;
        case 3: convert_sub_to<gil::rgba8_pixel_t>(A, "rgba8"); return;
        case 4: convert_sub_to<gil::rgb16_pixel_t>(A, "rgb16"); return;
        case 5: convert_sub_to<gil::gray32f_pixel_t>(A, "gray32f"); return;
        }
        convert_to<gil::gray8_pixel_t>(A, "gray8");
        convert_to<gil::rgb8_pixel_t>(A, "rgb8");
        convert_to<gil::rgba8_pixel_t>(A, "rgba8");
        convert_to<gil::rgb16_pixel_t>(A, "rgb16");
        convert_to<gil::gray32f_pixel_t>(A, "gray32f");
    }

    // (3) scanline reader
    static size_t scan_bits_per_pixel() {
        typedef typename std::remove_reference<typename ScanImg::view_t::reference>::type SP;   // a proxy class for bit-aligned views
        return bits_of((SP*)nullptr, typename gil::is_bit_aligned<SP>::type());
    }
    template <class SP> static size_t bits_of(SP*, std::false_type) { return sizeof(SP) * 8; }
    template <class SP> static size_t bits_of(SP*, std::true_type) { return gil::pixel_bit_size<SP>::value; }
    // One pass over a fresh scanline reader following an access plan: 'd' dereference the iterator and
    // compare the row with row `pos` of A, '+' increment (an increment that was not preceded by a dereference
    // makes the reader *skip* the row), 'aN;' std::advance by N.  Returns false when the reader could not be
    // made / the rows are too narrow (reported by the every-row pattern only).
    struct plan_result { bool ran = false; bool mismatch = false; long row = -1; long derefs = 0; long end_pos = 0; bool hit_end = false; cio::diff_t d; std::string what; bool threw = false; bool narrow = false; size_t rowbytes = 0, need = 0; };
    plan_result run_plan(Img const& A, std::string const& plan, bool to_end) {
        plan_result R;
        try {
            // make_scanline_reader(Device&, tag) does not compile for any device (probe c13_probe 0): the
            // file-name factory is the one public way to obtain a scanline reader
            cio::scratch_file sf("c13s", "img");
            if (!cio::spill(sf.path, f.bytes)) vh::fatal_monitor("harness", "cannot write scratch file " + sf.path);
            auto reader = gil::make_scanline_reader(sf.path, Tag());
            typedef typename ScanImg::view_t::x_iterator x_it;
            // the rows must be wide enough to hold A's pixels in the scanline layout; otherwise the two ways of
            // reading do not even deliver the same channels (and the bytes must not be interpreted)
            R.need = ((size_t)A.width() * scan_bits_per_pixel() + 7) / 8;
            R.rowbytes = (size_t)reader._scanline_length;
            if (R.rowbytes < R.need) { R.narrow = true; return R; }
            R.ran = true;
            auto it = reader.begin(); auto end = reader.end();
            long pos = 0;
            auto deref = [&]() {
                gil::byte_t* rowp = *it;
                ++R.derefs;
                auto rv = gil::interleaved_view(A.width(), 1, (x_it)rowp, reader._scanline_length);
                cio::diff_t d = compare_sem(gil::subimage_view(gil::const_view(A), 0, (int)pos, (int)A.width(), 1), rv);
                if (d.any() && !R.mismatch) { R.mismatch = true; R.row = pos; R.d = d; }
            };
            for (size_t i = 0; i < plan.size(); ++i) {
                char c = plan[i];
                if (c == 'd') { if (pos >= A.height() || it == end) break; deref(); }
                else if (c == '+') { if (pos >= A.height() || it == end) break; ++it; ++pos; }
                else if (c == 'a') { long n = 0; ++i; while (i < plan.size() && plan[i] != ';') n = n * 10 + (plan[i++] - '0');
                                     if (pos + n > A.height()) break; std::advance(it, n); pos += n; }
            }
            if (to_end) {           // continue dereferencing every remaining row and count them
                for (; it != end; ++it, ++pos) { if (pos >= A.height()) { ++pos; break; } deref(); }
                R.hit_end = true;
            }
            R.end_pos = pos;
        } catch (std::exception const& e) { R.threw = true; R.what = e.what(); }
        return R;
    }
    static const char* scan_pattern(int k) {
        static const char* n[] = { "every-row", "skip-then-deref", "deref-skip-deref", "advance", "alternate" };
        return n[k];
    }
    // pattern 0: dereference every row.  1: ++ k times without dereferencing, then dereference row k.
    // 2: dereference row 0 (or j), skip some rows, dereference row k.  3: std::advance(it, k), dereference.
    // 4: dereference only every other row (even rows; odd rows; each row twice).
    void scanline(int pattern) {
        Img A; if (!full(A)) return;
        vh::rng r = vh::case_rng();
        long H = A.height();
        if (pattern == 0) {
            vh::evals(1); vh::distinct(1);
            plan_result R = run_plan(A, "", true);
            if (R.threw) { vh::viol(key(scanline_supported ? "scanline-exception" : "scanline-unsupported"), vh::cat(f.name, ": ", R.what)); return; }
            if (R.narrow) { vh::viol(key("scanline-rowbytes"), vh::cat(f.name, ": scanline rows have ", R.rowbytes, " bytes, ", R.need, " needed for ", A.width(), " pixels of the type read_image delivers")); return; }
            if (R.end_pos != H) vh::viol(key("scanline-rowcount"), vh::cat(f.name, ": ", R.end_pos, " rows, image height ", H));
            else if (R.mismatch) vh::viol(key("scanline"), vh::cat(f.name, ": first differing row ", R.row, ": ", R.d.str()));
            return;
        }
        // the rows addressed: edge values, then seeded ones (keys carry the pattern, never k)
        std::vector<long> ks;
        long cand[] = { 1, 2, 3, H / 2, H - 2, H - 1 };
        for (long k : cand) if (k >= 1 && k <= H - 1 && std::find(ks.begin(), ks.end(), k) == ks.end()) ks.push_back(k);
        if (H > 4) for (int i = 0; i < (vh::thorough() ? 6 : 2); ++i) { long k = 1 + (long)r.below(H - 1); if (std::find(ks.begin(), ks.end(), k) == ks.end()) ks.push_back(k); }
        std::vector<std::string> plans;
        switch (pattern) {
        case 1: for (long k : ks) plans.push_back(std::string((size_t)k, '+') + "d");
                for (long k : ks) if (k + 1 <= H - 1) plans.push_back(std::string((size_t)k, '+') + "d+d");      // and the row after it
                break;
        case 2: for (long k : ks) plans.push_back("d" + std::string((size_t)k, '+') + "d");
                for (long k : ks) if (k >= 2) plans.push_back("+d" + std::string((size_t)(k - 1), '+') + "d");
                if (H >= 2) plans.push_back("d+d");
                break;
        case 3: for (long k : ks) plans.push_back(vh::cat("a", k, ";d"));
                for (long k : ks) if (k >= 2) plans.push_back(vh::cat("da", k, ";d"));
                break;
        case 4: { std::string even, odd, twice;
                  for (long y = 0; y < H; ++y) { even += (y % 2 == 0) ? "d+" : "+"; odd += (y % 2 == 1) ? "d+" : "+"; twice += "dd+"; }
                  plans.push_back(even); if (H >= 2) plans.push_back(odd); plans.push_back(twice);
                  std::string third; for (long y = 0; y < H; ++y) third += (y % 3 == 2) ? "d+" : "+"; if (H >= 3) plans.push_back(third);
                  break; }
        }
        long checked = 0;
        for (std::string const& plan : plans) {
            vh::evals(1);
            plan_result R = run_plan(A, plan, false);
            if (R.threw) {
                // variants the reader rejects altogether are reported once, by the every-row pattern
                if (scanline_supported) vh::viol(key("scanline-access-exception", scan_pattern(pattern)), vh::cat(f.name, " plan ", plan.size() > 40 ? plan.substr(0, 40) + "..." : plan, ": ", R.what));
                else return;
                continue;
            }
            if (R.narrow) return;
            ++checked;
            if (R.mismatch) vh::viol(key("scanline-access", scan_pattern(pattern)),
                                     vh::cat(f.name, " ", A.width(), "x", H, " plan '", plan.size() > 40 ? plan.substr(0, 40) + "..." : plan, "' (d = dereference, + = increment, aN; = std::advance N): row ", R.row,
                                             " obtained this way differs from row ", R.row, " of read_image: ", R.d.str()));
        }
        vh::distinct(checked);
        if (checked) vh::obs(vh::cat("scanline.", scan_pattern(pattern)));
    }

    // (4) read_view into a view inside an arena; (8) too-small views are rejected
    // compares arena with its pristine copy everywhere outside [ox,ox+w)x[oy,oy+h)
    static long outside_changes(Img const& arena, Img const& pristine, long ox, long oy, long w, long h) {
        long n = 0;
        for (long y = 0; y < arena.height(); ++y) for (long x = 0; x < arena.width(); ++x) {
            if (x >= ox && x < ox + w && y >= oy && y < oy + h) continue;
            uint64_t a[8], b[8]; P pa = gil::const_view(arena)(x, y), pb = gil::const_view(pristine)(x, y);
            int k = cio::pixel_bits(pa, a); cio::pixel_bits(pb, b);
            for (int i = 0; i < k; ++i) if (a[i] != b[i]) { ++n; break; }
        }
        return n;
    }
    // k = 0 whole image, 1..3 one fixed sub-rectangle class each; the geometry is fixed (keys and fatal
    // reports must not depend on the seed), the seed only chooses the arena contents
    static const char* readview_class(int k) {
        static const char* n[] = { "whole", "xoff-toright-yoff-tobottom", "x0-shortw-y0-shorth", "xoff-shortw-yoff-shorth" };
        return n[k];
    }
    void readview(int k) {
        Img A; if (!full(A)) return;
        vh::rng r = vh::case_rng();
        long W = A.width(), H = A.height();
        long x0 = 0, y0 = 0, dx = W, dy = H;
        if (k == 1) { if (W < 2 || H < 2) return; x0 = std::max(1L, W / 3); y0 = std::max(1L, H / 3); dx = W - x0; dy = H - y0; }
        if (k == 2) { if (W < 2 || H < 2) return; dx = (W + 1) / 2; dy = (H + 1) / 2; }
        if (k == 3) { if (W < 3 || H < 3) return; x0 = std::max(1L, W / 4); y0 = std::max(1L, H / 4); dx = std::max(1L, (W - x0) / 2); dy = std::max(1L, (H - y0) / 2); }
        std::string rc = readview_class(k);
        long ox = 3, oy = 2;
        Img arena(dx + ox + 5, dy + oy + 2), pristine;
        cio::fill_view(gil::view(arena), r.next(), 0);
        pristine = arena;
        vh::evals(1);
        vh::distinct(1);
        try {
            std::stringstream ss(f.bytes, std::ios::in | std::ios::binary);
            auto dst = gil::subimage_view(gil::view(arena), (int)ox, (int)oy, (int)dx, (int)dy);
            if (k == 0) gil::read_view(ss, dst, Tag());
            else gil::read_view(ss, dst, settings_t(gil::point_t(x0, y0), gil::point_t(dx, dy)));
        } catch (std::exception const& e) { vh::viol(key("readview-exception", rc), vh::cat(f.name, ": ", e.what())); return; }
        cio::diff_t d = cio::compare_views(gil::subimage_view(gil::const_view(A), (int)x0, (int)y0, (int)dx, (int)dy),
                                           gil::subimage_view(gil::const_view(arena), (int)ox, (int)oy, (int)dx, (int)dy));
        if (d.any()) vh::viol(key("readview", rc), vh::cat(f.name, " rect (", x0, ",", y0, ")+", dx, "x", dy, ": ", d.str()));
        long oc = outside_changes(arena, pristine, ox, oy, dx, dy);
        if (oc) vh::viol(key("readview-wrote-outside", rc), vh::cat(f.name, " rect (", x0, ",", y0, ")+", dx, "x", dy, ": ", oc, " arena pixels outside the destination view changed"));
    }
    void toosmall() {
        Img A; if (!full(A)) return;
        vh::rng r = vh::case_rng();
        long W = A.width(), H = A.height();
        // (kind) whole image into a view one column narrower / one row shorter; a sub-rectangle likewise
        struct { const char* name; bool sub; long cutw, cuth; } kinds[] = {
            { "narrow", false, 1, 0 }, { "short", false, 0, 1 }, { "narrow-short", false, 1, 1 },
            { "subrect-narrow", true, 1, 0 }, { "subrect-short", true, 0, 1 } };
        for (auto& kd : kinds) {
            long x0 = 0, y0 = 0, dx = W, dy = H;
            if (kd.sub) { x0 = W > 2 ? 1 : 0; y0 = H > 2 ? 1 : 0; dx = std::max(1L, (W - x0) / 2 + 1); dy = std::max(1L, (H - y0) / 2 + 1); if (x0 + dx > W) dx = W - x0; if (y0 + dy > H) dy = H - y0; }
            long vw = dx - kd.cutw, vh_ = dy - kd.cuth;
            if (vw < 1 || vh_ < 1) continue;        // an empty destination is a different question
            long ox = 2, oy = 2;
            Img arena(dx + 6, dy + 5), pristine;
            cio::fill_view(gil::view(arena), r.next(), 0);
            pristine = arena;
            vh::evals(1);
            bool threw = false; std::string what;
            try {
                std::stringstream ss(f.bytes, std::ios::in | std::ios::binary);
                auto dst = gil::subimage_view(gil::view(arena), (int)ox, (int)oy, (int)vw, (int)vh_);
                if (!kd.sub) gil::read_view(ss, dst, Tag());
                else gil::read_view(ss, dst, settings_t(gil::point_t(x0, y0), gil::point_t(dx, dy)));
            } catch (std::exception const& e) { threw = true; what = e.what(); }
            if (!threw) vh::viol(key("toosmall-accepted", kd.name), vh::cat(f.name, ": region ", dx, "x", dy, " read into a ", vw, "x", vh_, " view without an exception"));
            long oc = outside_changes(arena, pristine, ox, oy, vw, vh_);
            if (oc) vh::viol(key("toosmall-wrote-outside", kd.name), vh::cat(f.name, ": ", oc, " arena pixels outside the ", vw, "x", vh_, " destination changed (region ", dx, "x", dy, ")", threw ? ", exception: " + what : ", no exception"));
            vh::obs(threw ? "toosmall.rejected" : "toosmall.accepted");
        }
        vh::distinct(5);
    }

    // (5) any_image
    struct any_cmp {
        typedef void result_type;
        Img const* A; bool same_type = false; cio::diff_t d;
        void operator()(Img const& got) { same_type = true; d = cio::compare_views(gil::const_view(*A), gil::const_view(got)); }
        template <class Other> void operator()(Other const&) { same_type = false; }
    };
    void anyimage() {
        Img A; if (!full(A)) return;
        vh::evals(1);
        AnyImg any;
        try {
            std::stringstream ss(f.bytes, std::ios::in | std::ios::binary);
            gil::read_image(ss, any, Tag());
        } catch (std::exception const& e) { vh::viol(key("anyimage-exception"), vh::cat(f.name, ": ", e.what())); return; }
        any_cmp c; c.A = &A;
        boost::variant2::visit(std::ref(c), any);
        if (!c.same_type) vh::viol(key("anyimage-alternative"), vh::cat(f.name, ": holds alternative ", (long)any.index(), ", expected ", any_index));
        else if (c.d.any()) vh::viol(key("anyimage"), vh::cat(f.name, ": ", c.d.str()));
        vh::distinct(1);
    }

    // (6) devices, (7) read_image_info
    void devices() {
        Img A; if (!full(A)) return;
        for (int dev = D_FILE; dev <= D_NAME; ++dev) {
            if (dev == D_FILE && !has_file_ptr<Tag>::value) continue;
            vh::evals(1);
            Img B;
            try { read_via<Tag>(dev, f, B, Tag()); }
            catch (std::exception const& e) { vh::viol(key("device-exception", dev_name(dev)), vh::cat(f.name, ": ", e.what())); continue; }
            cio::diff_t d = cio::compare_views(gil::const_view(A), gil::const_view(B));
            if (d.any()) vh::viol(key("device", dev_name(dev)), vh::cat(f.name, ": ", d.str()));
            // and a sub-rectangle through this device
            long W = A.width(), H = A.height();
            long x0 = W / 2, y0 = H / 2, dx = W - x0, dy = H - y0;
            Img S;
            try { read_via<Tag>(dev, f, S, settings_t(gil::point_t(x0, y0), gil::point_t(dx, dy))); }
            catch (std::exception const& e) { vh::viol(key("device-subrect-exception", dev_name(dev)), vh::cat(f.name, ": ", e.what())); continue; }
            Img S0;
            try { read_via<Tag>(D_STREAM, f, S0, settings_t(gil::point_t(x0, y0), gil::point_t(dx, dy))); } catch (std::exception const&) { continue; }
            cio::diff_t d2 = cio::compare_views(gil::const_view(S0), gil::const_view(S));
            if (d2.any()) vh::viol(key("device-subrect", dev_name(dev)), vh::cat(f.name, ": ", d2.str()));
            vh::obs(vh::cat("device.", dev_name(dev)));
        }
        vh::distinct(2);
    }
    template <class Backend> static void dims_of(Backend const& b, long& w, long& h) { w = (long)b._info._width; h = (long)b._info._height; }
    void info() {
        Img A; if (!full(A)) return;
        for (int dev = D_STREAM; dev <= D_NAME; ++dev) {
            if (dev == D_FILE && !has_file_ptr<Tag>::value) continue;
            vh::evals(1);
            long w = -1, h = -1;
            try {
                if (dev == D_STREAM) { std::stringstream ss(f.bytes, std::ios::in | std::ios::binary); auto b = gil::read_image_info(ss, Tag()); dims_of(b, w, h); }
                else if (dev == D_FILE) info_fileptr(w, h, std::integral_constant<bool, has_file_ptr<Tag>::value>());
                else { cio::scratch_file sf("c13", "img"); cio::spill(sf.path, f.bytes); auto b = gil::read_image_info(sf.path, Tag()); dims_of(b, w, h); }
            } catch (std::exception const& e) { vh::viol(key("info-exception", dev_name(dev)), vh::cat(f.name, ": ", e.what())); continue; }
            if (w != A.width() || h != A.height())
                vh::viol(key("info-dims", dev_name(dev)), vh::cat(f.name, ": read_image_info says ", w, "x", h, ", read_image produced ", A.width(), "x", A.height()));
        }
        vh::distinct(1);
    }
    void info_fileptr(long& w, long& h, std::true_type) {
        std::shared_ptr<membuf> m(new membuf); m->data = f.bytes;
        FILE* fp = cio::open_mem_read(m.get());
        auto b = gil::read_image_info(fp, Tag());
        dims_of(b, w, h);
    }
    void info_fileptr(long&, long&, std::false_type) {}

    // (9) delivery independence: every entry point through input streams that serve the bytes in pieces
    // (get area refilled k bytes at a time; std::ifstream on a scratch file; std::stringstream filled by
    // write) must give what the same entry point gives through a one-piece std::istringstream.
    struct any_digest {
        typedef void result_type;
        std::string* out;
        template <class Image> void operator()(Image const& im) { *out = vh::cat(im.width(), "x", im.height(), ":", cio::hash_view(gil::const_view(im))); }
    };
    template <class I> static std::string digest(I const& im) { return vh::cat(im.width(), "x", im.height(), ":", cio::hash_view(gil::const_view(im))); }
    enum { E_READ_IMAGE, E_SUBRECT, E_READ_VIEW, E_CONVERT_RGB8, E_CONVERT_GRAY32F, E_CONVERT_VIEW, E_INFO, E_ANY, E_SCANLINE, E_SCANLINE_SKIP, E_COUNT };
    static const char* entry_name(int e) {
        static const char* n[] = { "read_image", "read_image-subrect", "read_view", "read_and_convert_image-rgb8", "read_and_convert_image-gray32f",
                                   "read_and_convert_view-rgb8", "read_image_info", "any_image", "scanline", "scanline-skip" };
        return n[e];
    }
    std::string scan_digest(std::istream& in, bool skip_odd) {
        typename gil::get_read_device<std::istream, Tag>::type dev(in);
        typename gil::get_scanline_reader<std::istream, Tag>::type reader(dev, settings_t());
        auto it = reader.begin(); auto end = reader.end();
        uint64_t h = 1469598103934665603ull; long rows = 0, y = 0;
        for (; it != end; ++it, ++y) {
            if (skip_odd && (y & 1)) continue;
            gil::byte_t* rowp = *it;
            h = vh::hash_bytes(rowp, (size_t)reader._scanline_length, h);
            ++rows;
            if (y > 100000) break;
        }
        return vh::cat(rows, " rows of ", (size_t)reader._scanline_length, " bytes:", h);
    }
    std::string entry(int e, std::istream& in, long W, long H) {
        try {
            switch (e) {
            case E_READ_IMAGE: { Img B; gil::read_image(in, B, Tag()); return digest(B); }
            case E_SUBRECT: { long x0 = W > 1 ? std::max(1L, W / 3) : 0, y0 = H > 1 ? std::max(1L, H / 3) : 0; Img B;
                              gil::read_image(in, B, settings_t(gil::point_t(x0, y0), gil::point_t(W - x0, H - y0))); return digest(B); }
            case E_READ_VIEW: { Img B(W, H); gil::read_view(in, gil::view(B), Tag()); return digest(B); }
            case E_CONVERT_RGB8: { gil::rgb8_image_t C; gil::read_and_convert_image(in, C, Tag()); return digest(C); }
            case E_CONVERT_GRAY32F: { gil::gray32f_image_t C; gil::read_and_convert_image(in, C, Tag()); return digest(C); }
            case E_CONVERT_VIEW: { gil::rgb8_image_t C(W, H); gil::read_and_convert_view(in, gil::view(C), Tag()); return digest(C); }
            case E_INFO: { auto b = gil::read_image_info(in, Tag()); long w, h; dims_of(b, w, h); return vh::cat(w, "x", h); }
            case E_ANY: { AnyImg any; gil::read_image(in, any, Tag()); std::string d; any_digest ad{ &d }; boost::variant2::visit(ad, any); return vh::cat("alt", (long)any.index(), " ", d); }
            case E_SCANLINE: return scan_digest(in, false);
            case E_SCANLINE_SKIP: return scan_digest(in, true);
            }
        } catch (std::exception const& ex) { return std::string("exception: ") + ex.what(); }
        return "";
    }
    void streams(int kind) {
        Img A; if (!full(A)) return;
        vh::rng r = vh::case_rng();
        size_t seeded_k = 3 + (size_t)r.below(8190);
        long W = A.width(), H = A.height();
        long n = 0;
        for (int e = 0; e < E_COUNT; ++e) {
            std::string ref, got;
            { cio::stream_src s; ref = entry(e, s.open(cio::SK_PLAIN, f.bytes, 0), W, H); }
            { cio::stream_src s; got = entry(e, s.open(kind, f.bytes, seeded_k), W, H); }
            vh::evals(1); ++n;
            if (ref.compare(0, 10, "exception:") != 0) vh::obs(vh::cat("stream.entry-ok.", entry_name(e)));      // the comparison is not one of two error texts
            else vh::count(vh::cat("stream_ref_exception_", entry_name(e)));
            if (ref != got)
                vh::viol(key("stream-delivery", vh::cat(cio::stream_kind_name(kind), ".", entry_name(e))),
                         vh::cat(f.name, " (", f.bytes.size(), " bytes) ", entry_name(e), " through ", cio::stream_kind_name(kind),
                                 kind == cio::SK_FRAGSEEDED ? vh::cat(" k=", seeded_k) : std::string(), ": [", got.substr(0, 160), "] but through a one-piece istringstream: [", ref.substr(0, 160), "]"));
        }
        vh::distinct(n);
        vh::obs(vh::cat("stream.", cio::stream_kind_name(kind)));
        if (f.bytes.size() > 8192) vh::obs("stream.file-over-8KB");
        if (f.bytes.size() > 16384) vh::obs("stream.file-over-16KB");
        if (f.bytes.size() > 65536) vh::obs("stream.file-over-64KB");
    }

    void run(int path, int sub = 0) {
        switch (path) {
        case 0: subrect(sub / 4, sub % 4); break;
        case 1: convert(sub); break;
        case 2: scanline(sub); break;
        case 3: readview(sub); break;
        case 4: anyimage(); break;
        case 5: devices(); break;
        case 6: info(); break;
        case 7: toosmall(); break;
        case 8: streams(sub); break;
        }
    }
};
static const char* PATHS[] = { "subrect", "convert", "scanline", "readview", "anyimage", "devices", "info", "toosmall", "streams" };
enum { NPATHS = 9 };

// ---- file sets --------------------------------------------------------------------------------------
static bool load_fixture(const char* fmt, const char* rel, file_t& f) {
    std::string p = cio::fixture_dir(fmt) + "/" + rel;
    if (!cio::slurp(p, f.bytes)) return false;
    f.name = std::string("fixture:") + fmt + "/" + rel;
    return true;
}
template <class View, class Info>
static std::string written(View const& v, Info const& info) {
    std::stringstream ss(std::ios::in | std::ios::out | std::ios::binary);
    gil::write_view(ss, v, info);
    return ss.str();
}
// contents of generated files depend on VERIF_SEED (fs) and on a per-file constant
static uint64_t fs(uint64_t k) { return vh::mix(vh::seed(), k); }
template <class Img> static Img seeded_image(int w, int h, uint64_t seed) { Img im(w, h); cio::fill_view(gil::view(im), fs(seed), 0); return im; }
// small sizes for which every sub-rectangle is enumerated, and two larger ones with odd row residues
struct sz_t { int d[2]; int operator[](int i) const { return d[i]; } };
static std::vector<sz_t> sizes(bool small) {
    std::vector<sz_t> v;
    if (small) { v = { { { 8, 8 } }, { { 5, 3 } }, { { 1, 1 } }, { { 3, 7 } }, { { 1, 6 } }, { { 7, 1 } } };
                 if (vh::thorough()) { sz_t more[] = { { { 2, 2 } }, { { 4, 8 } }, { { 8, 3 } }, { { 6, 6 } }, { { 2, 7 } }, { { 8, 1 } }, { { 1, 8 } }, { { 7, 5 } } }; v.insert(v.end(), more, more + 8); } }
    else { v = { { { 33, 17 } }, { { 18, 9 } }, { { 200, 150 } } };      // the last one: files of 30-180 KB, well over any stream buffer
           if (vh::thorough()) { sz_t more[] = { { { 40, 23 } }, { { 64, 5 } }, { { 17, 64 } }, { { 9, 9 } }, { { 31, 32 } }, { { 16, 16 } } }; v.insert(v.end(), more, more + 6); } }
    return v;
}
#define SMALL sizes(true)
#define LARGE sizes(false)

struct entry_t { file_t f; int kind; };      // kind: format-specific native-type selector
static std::vector<entry_t>& files() { static std::vector<entry_t> v; return v; }
static void add(std::string const& variant, std::string const& name, std::string const& bytes, int kind) {
    entry_t e; e.f.variant = variant; e.f.name = name; e.f.bytes = bytes; e.kind = kind; files().push_back(e);
}
static void add_fixture(const char* fmt, const char* rel, std::string const& variant, int kind) {
    entry_t e; if (!load_fixture(fmt, rel, e.f)) { vh::fatal_monitor("harness", vh::cat("fixture missing: ", fmt, "/", rel)); }
    e.f.variant = variant; e.kind = kind; files().push_back(e);
}

// =====================================================================================================
#if C13_PART == 0
typedef gil::bmp_tag tag_t;
static const char* FMT = "bmp";
typedef gil::any_image<gil::rgb8_image_t, gil::rgba8_image_t> any_t;
enum { K_RGB8_SCAN_RGBA = 0, K_RGBA8_SCAN_RGBA, K_RGB8_SCAN_RGB, K_RGB8_SCAN_BGR, K_RGBA8_SCAN_BGRA, K_RGB8_NOSCAN, K_RGBA8_NOSCAN };
static std::string bmp_topdown(std::string b) {
    // crafted: negate biHeight and reverse the row order of an uncompressed Windows BMP
    auto rd32 = [&](size_t o) { return (uint32_t)(uint8_t)b[o] | ((uint32_t)(uint8_t)b[o + 1] << 8) | ((uint32_t)(uint8_t)b[o + 2] << 16) | ((uint32_t)(uint8_t)b[o + 3] << 24); };
    uint32_t off = rd32(10), w = rd32(18); int32_t h = (int32_t)rd32(22); unsigned bpp = (uint8_t)b[28] | ((uint8_t)b[29] << 8);
    size_t pitch = ((size_t)w * bpp + 31) / 32 * 4;
    std::string rows = b.substr(off, pitch * h), out = b;
    for (int32_t y = 0; y < h; ++y) memcpy(&out[off + (size_t)y * pitch], &rows[(size_t)(h - 1 - y) * pitch], pitch);
    int32_t nh = -h; memcpy(&out[22], &nh, 4);
    return out;
}
static void build_files() {
    struct { const char* file; const char* variant; int kind; } fx[] = {
        { "g01bw.bmp", "pal1", K_RGBA8_SCAN_RGBA }, { "g01wb.bmp", "pal1", K_RGBA8_SCAN_RGBA }, { "g01bg.bmp", "pal1", K_RGBA8_SCAN_RGBA }, { "g01p1.bmp", "pal1", K_RGBA8_SCAN_RGBA },
        { "g04.bmp", "pal4", K_RGBA8_SCAN_RGBA }, { "g04p4.bmp", "pal4", K_RGBA8_SCAN_RGBA }, { "g04rle.bmp", "rle4", K_RGB8_NOSCAN },
        { "g08.bmp", "pal8", K_RGBA8_SCAN_RGBA }, { "g08p256.bmp", "pal8", K_RGBA8_SCAN_RGBA }, { "g08pi256.bmp", "pal8", K_RGBA8_SCAN_RGBA }, { "g08pi64.bmp", "pal8", K_RGBA8_SCAN_RGBA },
        { "g08res22.bmp", "pal8", K_RGBA8_SCAN_RGBA }, { "g08res11.bmp", "pal8", K_RGBA8_SCAN_RGBA }, { "g08res21.bmp", "pal8", K_RGBA8_SCAN_RGBA }, { "g08s0.bmp", "pal8", K_RGBA8_SCAN_RGBA },
        { "g08offs.bmp", "pal8", K_RGBA8_SCAN_RGBA }, { "g08w126.bmp", "pal8", K_RGBA8_SCAN_RGBA }, { "g08w125.bmp", "pal8", K_RGBA8_SCAN_RGBA }, { "g08w124.bmp", "pal8", K_RGBA8_SCAN_RGBA },
        { "g08p64.bmp", "pal8", K_RGBA8_SCAN_RGBA }, { "g08os2.bmp", "os2-pal8", K_RGB8_SCAN_RGBA }, { "g08rle.bmp", "rle8", K_RGB8_NOSCAN },
        { "g16def555.bmp", "rgb555", K_RGB8_SCAN_RGB }, { "g16bf555.bmp", "bitfield555", K_RGB8_SCAN_RGB }, { "g16bf565.bmp", "bitfield565", K_RGB8_SCAN_RGB },
        { "g24.bmp", "rgb24", K_RGB8_SCAN_BGR }, { "g32def.bmp", "rgb32", K_RGBA8_SCAN_BGRA }, { "g32bf.bmp", "bitfield32", K_RGBA8_SCAN_BGRA } };
    for (auto& x : fx) add_fixture("bmp", x.file, x.variant, x.kind);
    gil::image_write_info<gil::bmp_tag> info;
    int n = 0;
    for (auto& s : SMALL) {
        add("written-rgb24", vh::cat("written:rgb8 ", s[0], "x", s[1]), written(gil::const_view(seeded_image<gil::rgb8_image_t>(s[0], s[1], 100 + n)), info), K_RGB8_SCAN_BGR);
        add("written-rgb32", vh::cat("written:rgba8 ", s[0], "x", s[1]), written(gil::const_view(seeded_image<gil::rgba8_image_t>(s[0], s[1], 200 + n)), info), K_RGBA8_SCAN_BGRA);
        ++n;
    }
    for (auto& s : LARGE) {
        std::string b24 = written(gil::const_view(seeded_image<gil::rgb8_image_t>(s[0], s[1], 300 + n)), info);
        std::string b32 = written(gil::const_view(seeded_image<gil::rgba8_image_t>(s[0], s[1], 400 + n)), info);
        add("written-rgb24", vh::cat("written:rgb8 ", s[0], "x", s[1]), b24, K_RGB8_SCAN_BGR);
        add("written-rgb32", vh::cat("written:rgba8 ", s[0], "x", s[1]), b32, K_RGBA8_SCAN_BGRA);
        add("topdown-rgb24", vh::cat("crafted:top-down rgb8 ", s[0], "x", s[1]), bmp_topdown(b24), K_RGB8_SCAN_BGR);
        ++n;
    }
    { std::string b = written(gil::const_view(seeded_image<gil::rgb8_image_t>(5, 4, 77)), info); add("topdown-rgb24", "crafted:top-down rgb8 5x4", bmp_topdown(b), K_RGB8_SCAN_BGR); }
    { file_t g; if (load_fixture("bmp", "g08.bmp", g)) add("topdown-pal8", "crafted:top-down g08.bmp", bmp_topdown(g.bytes), K_RGBA8_SCAN_RGBA); }
}
static void run_file(entry_t const& e, int path, int sub) {
    switch (e.kind) {
    case K_RGB8_SCAN_RGBA: checks<tag_t, gil::rgb8_image_t, gil::rgba8_image_t, any_t>(FMT, e.f, 0, true).run(path, sub); break;
    case K_RGBA8_SCAN_RGBA: checks<tag_t, gil::rgba8_image_t, gil::rgba8_image_t, any_t>(FMT, e.f, 1, true).run(path, sub); break;
    case K_RGB8_SCAN_RGB: checks<tag_t, gil::rgb8_image_t, gil::rgb8_image_t, any_t>(FMT, e.f, 0, true).run(path, sub); break;
    case K_RGB8_SCAN_BGR: checks<tag_t, gil::rgb8_image_t, gil::bgr8_image_t, any_t>(FMT, e.f, 0, true).run(path, sub); break;
    case K_RGBA8_SCAN_BGRA: checks<tag_t, gil::rgba8_image_t, gil::bgra8_image_t, any_t>(FMT, e.f, 1, true).run(path, sub); break;
    case K_RGB8_NOSCAN: checks<tag_t, gil::rgb8_image_t, gil::rgb8_image_t, any_t>(FMT, e.f, 0, false).run(path, sub); break;
    case K_RGBA8_NOSCAN: checks<tag_t, gil::rgba8_image_t, gil::rgba8_image_t, any_t>(FMT, e.f, 1, false).run(path, sub); break;
    }
}
#endif

// =====================================================================================================
#if C13_PART == 1
typedef gil::pnm_tag tag_t;
static const char* FMT = "pnm";
typedef gil::any_image<gil::gray8_image_t, gil::rgb8_image_t, gil::gray1_image_t> any_t;
enum { K_GRAY8 = 0, K_RGB8, K_GRAY1 };
static std::string pnm_ascii(int type, int w, int h, uint64_t seed, bool comments) {
    vh::rng r(fs(seed));
    std::ostringstream os;
    os << "P" << type << "\n";
    if (comments) os << "# crafted by the C13 monitor\n";
    os << w << " " << h << "\n";
    if (type != 1) os << "255\n";
    int per = type == 3 ? 3 : 1;
    for (int y = 0; y < h; ++y) {
        for (int x = 0; x < w * per; ++x) os << (type == 1 ? (int)r.below(2) : (int)r.below(256)) << (x + 1 == w * per ? "\n" : (r.below(4) ? " " : "  "));
    }
    return os.str();
}
static void build_files() {
    add_fixture("pnm", "p1.pnm", "P1-ascii-mono", K_GRAY8);
    add_fixture("pnm", "p2.pnm", "P2-ascii-gray", K_GRAY8);
    add_fixture("pnm", "p3.pnm", "P3-ascii-rgb", K_RGB8);
    add_fixture("pnm", "p4.pnm", "P4-bin-mono", K_GRAY1);
    add_fixture("pnm", "p5.pnm", "P5-bin-gray", K_GRAY8);
    add_fixture("pnm", "p6.pnm", "P6-bin-rgb", K_RGB8);
    gil::image_write_info<gil::pnm_tag> info;
    int n = 0;
    for (auto& s : SMALL) {
        add("P5-bin-gray", vh::cat("written:gray8 ", s[0], "x", s[1]), written(gil::const_view(seeded_image<gil::gray8_image_t>(s[0], s[1], 100 + n)), info), K_GRAY8);
        add("P6-bin-rgb", vh::cat("written:rgb8 ", s[0], "x", s[1]), written(gil::const_view(seeded_image<gil::rgb8_image_t>(s[0], s[1], 200 + n)), info), K_RGB8);
        add("P1-ascii-mono", vh::cat("crafted:P1 ", s[0], "x", s[1]), pnm_ascii(1, s[0], s[1], 300 + n, n & 1), K_GRAY8);
        add("P2-ascii-gray", vh::cat("crafted:P2 ", s[0], "x", s[1]), pnm_ascii(2, s[0], s[1], 400 + n, n & 1), K_GRAY8);
        add("P3-ascii-rgb", vh::cat("crafted:P3 ", s[0], "x", s[1]), pnm_ascii(3, s[0], s[1], 500 + n, n & 1), K_RGB8);
        ++n;
    }
    // binary mono: the writer only handles widths that are multiples of 8 (C12 finding); 8x8 and 16x5, 24x3
    { gil::gray1_image_t im(8, 8); cio::fill_view(gil::view(im), fs(901), 0); add("P4-bin-mono", "written:gray1 8x8", written(gil::view(im), info), K_GRAY1); }
    { gil::gray1_image_t im(16, 5); cio::fill_view(gil::view(im), fs(902), 0); add("P4-bin-mono", "written:gray1 16x5", written(gil::view(im), info), K_GRAY1); }
    { gil::gray1_image_t im(1000, 264); cio::fill_view(gil::view(im), fs(905), 0); add("P4-bin-mono", "written:gray1 1000x264", written(gil::view(im), info), K_GRAY1); }   // 33 KB
    // crafted P4 with a width that is not a multiple of 8 (rows padded to whole bytes)
    { std::string b = "P4\n11 6\n"; vh::rng r(fs(903)); for (int i = 0; i < 12; ++i) b.push_back((char)r.below(256)); add("P4-bin-mono-padded", "crafted:P4 11x6", b, K_GRAY1); }
    { std::string b = "P4 5 7 "; vh::rng r(fs(904)); for (int i = 0; i < 7; ++i) b.push_back((char)r.below(256)); add("P4-bin-mono-padded", "crafted:P4 5x7", b, K_GRAY1); }
    for (auto& s : LARGE) {
        add("P6-bin-rgb", vh::cat("written:rgb8 ", s[0], "x", s[1]), written(gil::const_view(seeded_image<gil::rgb8_image_t>(s[0], s[1], 600 + n)), info), K_RGB8);
        add("P2-ascii-gray", vh::cat("crafted:P2 ", s[0], "x", s[1]), pnm_ascii(2, s[0], s[1], 700 + n, true), K_GRAY8);
        ++n;
    }
}
static void run_file(entry_t const& e, int path, int sub) {
    switch (e.kind) {
    case K_GRAY8: checks<tag_t, gil::gray8_image_t, gil::gray8_image_t, any_t>(FMT, e.f, 0, true).run(path, sub); break;
    case K_RGB8: checks<tag_t, gil::rgb8_image_t, gil::rgb8_image_t, any_t>(FMT, e.f, 1, true).run(path, sub); break;
    case K_GRAY1: checks<tag_t, gil::gray1_image_t, gil::gray1_image_t, any_t>(FMT, e.f, 2, true).run(path, sub); break;
    }
}
#endif

// =====================================================================================================
#if C13_PART == 2
typedef gil::targa_tag tag_t;
static const char* FMT = "targa";
typedef gil::any_image<gil::rgb8_image_t, gil::rgba8_image_t> any_t;
enum { K_RGB8 = 0, K_RGBA8, K_RGB8_NOSCAN, K_RGBA8_NOSCAN };
static void build_files() {
    add_fixture("targa", "24BPP_uncompressed.tga", "raw24", K_RGB8);
    add_fixture("targa", "32BPP_uncompressed.tga", "raw32", K_RGBA8);
    add_fixture("targa", "24BPP_uncompressed_ul_origin.tga", "raw24-ul-origin", K_RGB8_NOSCAN);
    add_fixture("targa", "32BPP_uncompressed_ul_origin.tga", "raw32-ul-origin", K_RGBA8_NOSCAN);
    add_fixture("targa", "24BPP_compressed.tga", "rle24", K_RGB8_NOSCAN);
    add_fixture("targa", "32BPP_compressed.tga", "rle32", K_RGBA8_NOSCAN);
    add_fixture("targa", "24BPP_compressed_ul_origin.tga", "rle24-ul-origin", K_RGB8_NOSCAN);
    add_fixture("targa", "32BPP_compressed_ul_origin.tga", "rle32-ul-origin", K_RGBA8_NOSCAN);
    gil::image_write_info<gil::targa_tag> info;
    int n = 0;
    for (auto& s : SMALL) {
        add("written-raw24", vh::cat("written:rgb8 ", s[0], "x", s[1]), written(gil::const_view(seeded_image<gil::rgb8_image_t>(s[0], s[1], 100 + n)), info), K_RGB8);
        add("written-raw32", vh::cat("written:rgba8 ", s[0], "x", s[1]), written(gil::const_view(seeded_image<gil::rgba8_image_t>(s[0], s[1], 200 + n)), info), K_RGBA8);
        ++n;
    }
    for (auto& s : LARGE) {
        add("written-raw24", vh::cat("written:rgb8 ", s[0], "x", s[1]), written(gil::const_view(seeded_image<gil::rgb8_image_t>(s[0], s[1], 300 + n)), info), K_RGB8);
        add("written-raw32", vh::cat("written:rgba8 ", s[0], "x", s[1]), written(gil::const_view(seeded_image<gil::rgba8_image_t>(s[0], s[1], 400 + n)), info), K_RGBA8);
        ++n;
    }
}
static void run_file(entry_t const& e, int path, int sub) {
    switch (e.kind) {
    case K_RGB8: checks<tag_t, gil::rgb8_image_t, gil::bgr8_image_t, any_t>(FMT, e.f, 0, true).run(path, sub); break;
    case K_RGBA8: checks<tag_t, gil::rgba8_image_t, gil::bgra8_image_t, any_t>(FMT, e.f, 1, true).run(path, sub); break;
    case K_RGB8_NOSCAN: checks<tag_t, gil::rgb8_image_t, gil::bgr8_image_t, any_t>(FMT, e.f, 0, false).run(path, sub); break;
    case K_RGBA8_NOSCAN: checks<tag_t, gil::rgba8_image_t, gil::bgra8_image_t, any_t>(FMT, e.f, 1, false).run(path, sub); break;
    }
}
#endif

// =====================================================================================================
#if C13_PART == 3 || C13_PART == 7 || C13_PART == 10
typedef gil::png_tag tag_t;
static const char* FMT = "png";
// crafted directly with libpng: interlaced and palette files, which GIL's writer cannot produce
struct png_mem { std::string out; };
static void png_mem_write(png_structp p, png_bytep d, png_size_t n) { ((png_mem*)png_get_io_ptr(p))->out.append((const char*)d, n); }
static void png_mem_flush(png_structp) {}
static std::string png_craft(int w, int h, int color_type, int depth, bool interlaced, uint64_t seed) {
    png_mem m;
    png_structp ps = png_create_write_struct(PNG_LIBPNG_VER_STRING, nullptr, nullptr, nullptr);
    png_infop pi = png_create_info_struct(ps);
    if (setjmp(png_jmpbuf(ps))) vh::fatal_monitor("harness", "libpng failed while crafting a file");
    png_set_write_fn(ps, &m, &png_mem_write, &png_mem_flush);
    png_set_IHDR(ps, pi, w, h, depth, color_type, interlaced ? PNG_INTERLACE_ADAM7 : PNG_INTERLACE_NONE, PNG_COMPRESSION_TYPE_DEFAULT, PNG_FILTER_TYPE_DEFAULT);
    vh::rng r(fs(seed));
    png_color pal[256];
    if (color_type == PNG_COLOR_TYPE_PALETTE) {
        int n = 1 << depth;
        for (int i = 0; i < n; ++i) { pal[i].red = (png_byte)r.below(256); pal[i].green = (png_byte)r.below(256); pal[i].blue = (png_byte)r.below(256); }
        png_set_PLTE(ps, pi, pal, n);
    }
    png_write_info(ps, pi);
    int channels = color_type == PNG_COLOR_TYPE_GRAY || color_type == PNG_COLOR_TYPE_PALETTE ? 1 : color_type == PNG_COLOR_TYPE_RGB ? 3 : 4;
    size_t rowbytes = ((size_t)w * channels * depth + 7) / 8;
    std::vector<std::vector<png_byte>> rows(h, std::vector<png_byte>(rowbytes));
    std::vector<png_bytep> rp(h);
    for (int y = 0; y < h; ++y) { for (auto& b : rows[y]) b = (png_byte)r.below(256); rp[y] = rows[y].data(); }
    png_write_image(ps, rp.data());
    png_write_end(ps, pi);
    png_destroy_write_struct(&ps, &pi);
    return m.out;
}
#endif
#if C13_PART == 3
typedef gil::any_image<gil::gray8_image_t, gil::rgb8_image_t, gil::rgba8_image_t, gil::rgb16_image_t> any_t;
enum { K_GRAY8 = 0, K_RGB8, K_RGBA8, K_GRAY8_NOSCAN, K_RGB8_NOSCAN, K_RGBA8_NOSCAN };
static void build_files() {
    add_fixture("png", "PngSuite/tbbn3p08.png", "pal8-trns", K_RGBA8);
    add_fixture("png", "PngSuite/tbgn3p08.png", "pal8-trns", K_RGBA8);
    add_fixture("png", "PngSuite/tp1n3p08.png", "pal8-trns", K_RGBA8);
    add_fixture("png", "PngSuite/tm3n3p02.png", "pal2-trns", K_RGBA8);
    add_fixture("png", "PngSuite/tbrn2c08.png", "rgb8-trns", K_RGBA8);
    add_fixture("png", "EddDawson/36dpi.png", "rgb8", K_RGB8);
    if (vh::thorough()) add_fixture("png", "test.png", "rgba8", K_RGBA8);
    gil::image_write_info<gil::png_tag> info;
    int n = 0;
    for (auto& s : SMALL) {
        add("gray8", vh::cat("written:gray8 ", s[0], "x", s[1]), written(gil::const_view(seeded_image<gil::gray8_image_t>(s[0], s[1], 100 + n)), info), K_GRAY8);
        add("rgb8", vh::cat("written:rgb8 ", s[0], "x", s[1]), written(gil::const_view(seeded_image<gil::rgb8_image_t>(s[0], s[1], 200 + n)), info), K_RGB8);
        add("rgba8", vh::cat("written:rgba8 ", s[0], "x", s[1]), written(gil::const_view(seeded_image<gil::rgba8_image_t>(s[0], s[1], 300 + n)), info), K_RGBA8);
        ++n;
    }
    for (auto& s : LARGE) {
        add("gray8", vh::cat("written:gray8 ", s[0], "x", s[1]), written(gil::const_view(seeded_image<gil::gray8_image_t>(s[0], s[1], 400 + n)), info), K_GRAY8);
        add("rgb8", vh::cat("written:rgb8 ", s[0], "x", s[1]), written(gil::const_view(seeded_image<gil::rgb8_image_t>(s[0], s[1], 500 + n)), info), K_RGB8);
        add("rgba8", vh::cat("written:rgba8 ", s[0], "x", s[1]), written(gil::const_view(seeded_image<gil::rgba8_image_t>(s[0], s[1], 600 + n)), info), K_RGBA8);
        ++n;
    }
    add("interlaced-rgb8", "crafted:adam7 rgb8 19x11", png_craft(19, 11, PNG_COLOR_TYPE_RGB, 8, true, 701), K_RGB8_NOSCAN);
    add("interlaced-rgb8", "crafted:adam7 rgb8 7x6", png_craft(7, 6, PNG_COLOR_TYPE_RGB, 8, true, 702), K_RGB8_NOSCAN);
    add("interlaced-gray8", "crafted:adam7 gray8 9x17", png_craft(9, 17, PNG_COLOR_TYPE_GRAY, 8, true, 703), K_GRAY8_NOSCAN);
    add("interlaced-rgba8", "crafted:adam7 rgba8 8x8", png_craft(8, 8, PNG_COLOR_TYPE_RGB_ALPHA, 8, true, 704), K_RGBA8_NOSCAN);
    add("pal8", "crafted:palette8 21x10", png_craft(21, 10, PNG_COLOR_TYPE_PALETTE, 8, false, 705), K_RGB8);
    add("pal4", "crafted:palette4 13x9", png_craft(13, 9, PNG_COLOR_TYPE_PALETTE, 4, false, 706), K_RGB8);
    add("pal1", "crafted:palette1 7x5", png_craft(7, 5, PNG_COLOR_TYPE_PALETTE, 1, false, 707), K_RGB8);
    add("interlaced-pal4", "crafted:adam7 palette4 13x9", png_craft(13, 9, PNG_COLOR_TYPE_PALETTE, 4, true, 708), K_RGB8_NOSCAN);
}
static void run_file(entry_t const& e, int path, int sub) {
    switch (e.kind) {
    case K_GRAY8: checks<tag_t, gil::gray8_image_t, gil::gray8_image_t, any_t>(FMT, e.f, 0, true).run(path, sub); break;
    case K_RGB8: checks<tag_t, gil::rgb8_image_t, gil::rgb8_image_t, any_t>(FMT, e.f, 1, true).run(path, sub); break;
    case K_RGBA8: checks<tag_t, gil::rgba8_image_t, gil::rgba8_image_t, any_t>(FMT, e.f, 2, true).run(path, sub); break;
    case K_GRAY8_NOSCAN: checks<tag_t, gil::gray8_image_t, gil::gray8_image_t, any_t>(FMT, e.f, 0, false).run(path, sub); break;
    case K_RGB8_NOSCAN: checks<tag_t, gil::rgb8_image_t, gil::rgb8_image_t, any_t>(FMT, e.f, 1, false).run(path, sub); break;
    case K_RGBA8_NOSCAN: checks<tag_t, gil::rgba8_image_t, gil::rgba8_image_t, any_t>(FMT, e.f, 2, false).run(path, sub); break;
    }
}
#endif
#if C13_PART == 7
typedef gil::any_image<gil::gray16_image_t, gil::rgb16_image_t, gil::rgba16_image_t, gil::rgb8_image_t> any_t;
enum { K_GRAY16 = 0, K_RGB16, K_RGBA16, K_RGB16_NOSCAN };
static void build_files() {
    add_fixture("png", "PngSuite/tbbn2c16.png", "rgb16-trns", K_RGBA16);
    add_fixture("png", "PngSuite/tbgn2c16.png", "rgb16-trns", K_RGBA16);
    gil::image_write_info<gil::png_tag> info;
    int n = 0;
    for (auto& s : SMALL) {
        add("gray16", vh::cat("written:gray16 ", s[0], "x", s[1]), written(gil::const_view(seeded_image<gil::gray16_image_t>(s[0], s[1], 100 + n)), info), K_GRAY16);
        add("rgb16", vh::cat("written:rgb16 ", s[0], "x", s[1]), written(gil::const_view(seeded_image<gil::rgb16_image_t>(s[0], s[1], 200 + n)), info), K_RGB16);
        add("rgba16", vh::cat("written:rgba16 ", s[0], "x", s[1]), written(gil::const_view(seeded_image<gil::rgba16_image_t>(s[0], s[1], 300 + n)), info), K_RGBA16);
        ++n;
    }
    for (auto& s : LARGE) {
        add("gray16", vh::cat("written:gray16 ", s[0], "x", s[1]), written(gil::const_view(seeded_image<gil::gray16_image_t>(s[0], s[1], 700 + n)), info), K_GRAY16);
        add("rgb16", vh::cat("written:rgb16 ", s[0], "x", s[1]), written(gil::const_view(seeded_image<gil::rgb16_image_t>(s[0], s[1], 800 + n)), info), K_RGB16);
        add("rgba16", vh::cat("written:rgba16 ", s[0], "x", s[1]), written(gil::const_view(seeded_image<gil::rgba16_image_t>(s[0], s[1], 900 + n)), info), K_RGBA16);
        ++n;
    }
    add("interlaced-rgb16", "crafted:adam7 rgb16 10x7", png_craft(10, 7, PNG_COLOR_TYPE_RGB, 16, true, 1302), K_RGB16_NOSCAN);
}
static void run_file(entry_t const& e, int path, int sub) {
    switch (e.kind) {
    case K_GRAY16: checks<tag_t, gil::gray16_image_t, gil::gray16_image_t, any_t>(FMT, e.f, 0, true).run(path, sub); break;
    case K_RGB16: checks<tag_t, gil::rgb16_image_t, gil::rgb16_image_t, any_t>(FMT, e.f, 1, true).run(path, sub); break;
    case K_RGBA16: checks<tag_t, gil::rgba16_image_t, gil::rgba16_image_t, any_t>(FMT, e.f, 2, true).run(path, sub); break;
    case K_RGB16_NOSCAN: checks<tag_t, gil::rgb16_image_t, gil::rgb16_image_t, any_t>(FMT, e.f, 1, false).run(path, sub); break;
    }
}
#endif
#if C13_PART == 10
typedef gil::any_image<gil::gray1_image_t, gil::gray2_image_t, gil::gray4_image_t, gil::rgb8_image_t> any_t;
enum { K_GRAY1 = 0, K_GRAY2, K_GRAY4, K_GRAY4_NOSCAN };
static void build_files() {
    gil::image_write_info<gil::png_tag> info;
    int n = 0;
    for (auto& s : SMALL) {
        { gil::gray1_image_t im(s[0], s[1]); cio::fill_view(gil::view(im), fs(400 + n), 0); add("gray1", vh::cat("written:gray1 ", s[0], "x", s[1]), written(gil::view(im), info), K_GRAY1); }
        { gil::gray2_image_t im(s[0], s[1]); cio::fill_view(gil::view(im), fs(500 + n), 0); add("gray2", vh::cat("written:gray2 ", s[0], "x", s[1]), written(gil::view(im), info), K_GRAY2); }
        { gil::gray4_image_t im(s[0], s[1]); cio::fill_view(gil::view(im), fs(600 + n), 0); add("gray4", vh::cat("written:gray4 ", s[0], "x", s[1]), written(gil::view(im), info), K_GRAY4); }
        ++n;
    }
    for (auto& s : LARGE) {
        { gil::gray1_image_t im(s[0], s[1]); cio::fill_view(gil::view(im), fs(1000 + n), 0); add("gray1", vh::cat("written:gray1 ", s[0], "x", s[1]), written(gil::view(im), info), K_GRAY1); }
        { gil::gray2_image_t im(s[0], s[1]); cio::fill_view(gil::view(im), fs(1100 + n), 0); add("gray2", vh::cat("written:gray2 ", s[0], "x", s[1]), written(gil::view(im), info), K_GRAY2); }
        { gil::gray4_image_t im(s[0], s[1]); cio::fill_view(gil::view(im), fs(1200 + n), 0); add("gray4", vh::cat("written:gray4 ", s[0], "x", s[1]), written(gil::view(im), info), K_GRAY4); }
        ++n;
    }
    add("interlaced-gray4", "crafted:adam7 gray4 13x9", png_craft(13, 9, PNG_COLOR_TYPE_GRAY, 4, true, 1301), K_GRAY4_NOSCAN);
    add("gray1", "crafted:gray1 19x6", png_craft(19, 6, PNG_COLOR_TYPE_GRAY, 1, false, 1303), K_GRAY1);
    { gil::gray1_image_t im(1000, 400); cio::fill_view(gil::view(im), fs(1304), 0); add("gray1", "written:gray1 1000x400", written(gil::view(im), info), K_GRAY1); }   // ~50 KB
    { gil::gray4_image_t im(640, 240); cio::fill_view(gil::view(im), fs(1305), 0); add("gray4", "written:gray4 640x240", written(gil::view(im), info), K_GRAY4); }    // ~77 KB
}
static void run_file(entry_t const& e, int path, int sub) {
    switch (e.kind) {
    case K_GRAY1: checks<tag_t, gil::gray1_image_t, gil::gray1_image_t, any_t>(FMT, e.f, 0, true).run(path, sub); break;
    case K_GRAY2: checks<tag_t, gil::gray2_image_t, gil::gray2_image_t, any_t>(FMT, e.f, 1, true).run(path, sub); break;
    case K_GRAY4: checks<tag_t, gil::gray4_image_t, gil::gray4_image_t, any_t>(FMT, e.f, 2, true).run(path, sub); break;
    case K_GRAY4_NOSCAN: checks<tag_t, gil::gray4_image_t, gil::gray4_image_t, any_t>(FMT, e.f, 2, false).run(path, sub); break;
    }
}
#endif

// =====================================================================================================
#if C13_PART == 4
typedef gil::jpeg_tag tag_t;
static const char* FMT = "jpeg";
typedef gil::any_image<gil::gray8_image_t, gil::rgb8_image_t, gil::cmyk8_image_t> any_t;
enum { K_GRAY8 = 0, K_RGB8, K_CMYK8 };
static void build_files() {
    add_fixture("jpeg", "EddDawson/36dpi.jpg", "ycc-baseline", K_RGB8);
    if (vh::thorough()) add_fixture("jpeg", "test.jpg", "ycc-baseline", K_RGB8);
    int n = 0;
    for (auto& s : SMALL) {
        gil::image_write_info<gil::jpeg_tag> info(90 + n);
        add("written-gray", vh::cat("written:gray8 ", s[0], "x", s[1]), written(gil::const_view(seeded_image<gil::gray8_image_t>(s[0], s[1], 100 + n)), info), K_GRAY8);
        add("written-ycc", vh::cat("written:rgb8 ", s[0], "x", s[1]), written(gil::const_view(seeded_image<gil::rgb8_image_t>(s[0], s[1], 200 + n)), info), K_RGB8);
        add("written-cmyk", vh::cat("written:cmyk8 ", s[0], "x", s[1]), written(gil::const_view(seeded_image<gil::cmyk8_image_t>(s[0], s[1], 300 + n)), info), K_CMYK8);
        ++n;
    }
    for (auto& s : LARGE) {
        gil::image_write_info<gil::jpeg_tag> info(75);
        add("written-gray", vh::cat("written:gray8 ", s[0], "x", s[1]), written(gil::const_view(seeded_image<gil::gray8_image_t>(s[0], s[1], 400 + n)), info), K_GRAY8);
        add("written-ycc", vh::cat("written:rgb8 ", s[0], "x", s[1]), written(gil::const_view(seeded_image<gil::rgb8_image_t>(s[0], s[1], 500 + n)), info), K_RGB8);
        add("written-cmyk", vh::cat("written:cmyk8 ", s[0], "x", s[1]), written(gil::const_view(seeded_image<gil::cmyk8_image_t>(s[0], s[1], 600 + n)), info), K_CMYK8);
        ++n;
    }
}
static void run_file(entry_t const& e, int path, int sub) {
    switch (e.kind) {
    case K_GRAY8: checks<tag_t, gil::gray8_image_t, gil::gray8_image_t, any_t>(FMT, e.f, 0, true).run(path, sub); break;
    case K_RGB8: checks<tag_t, gil::rgb8_image_t, gil::rgb8_image_t, any_t>(FMT, e.f, 1, true).run(path, sub); break;
    case K_CMYK8: checks<tag_t, gil::cmyk8_image_t, gil::cmyk8_image_t, any_t>(FMT, e.f, 2, true).run(path, sub); break;
    }
}
#endif

// =====================================================================================================
#ifdef C13_TIFF
typedef gil::tiff_tag tag_t;
static const char* FMT = "tiff";
struct tcfg { const char* name; bool tiled; int compression; bool scan; };
static const tcfg TCFGS[] = { { "strip-none", false, COMPRESSION_NONE, true }, { "strip-lzw", false, COMPRESSION_LZW, true },
                              { "strip-packbits", false, COMPRESSION_PACKBITS, true }, { "tile16-none", true, COMPRESSION_NONE, false },
                              { "tile16-deflate", true, COMPRESSION_ADOBE_DEFLATE, false } };
template <class Img> static void add_tiff_type(const char* type, int kind_scan, int kind_noscan, uint64_t seed0) {
    int n = 0;
    for (auto& c : TCFGS) {
        if (!TIFFIsCODECConfigured((uint16_t)c.compression)) continue;
        gil::image_write_info<gil::tiff_tag> info;
        info._compression = c.compression; info._is_tiled = c.tiled; info._tile_width = info._tile_length = 16;
        for (auto& s : SMALL) {
            if (&c != &TCFGS[0] && &c != &TCFGS[3] && (s[0] != 8 && s[0] != 5)) { ++n; continue; }   // all small sizes uncompressed; two sizes otherwise
            Img im(s[0], s[1]); cio::fill_view(gil::view(im), fs(seed0 + n), 0);
            add(vh::cat(type, "-", c.name, ""), vh::cat("written:", type, " ", c.name, " ", s[0], "x", s[1]), written(gil::view(im), info), c.scan ? kind_scan : kind_noscan);
            ++n;
        }
        for (auto& s : LARGE) {
            Img im(s[0], s[1]); cio::fill_view(gil::view(im), fs(seed0 + n), 0);
            add(vh::cat(type, "-", c.name), vh::cat("written:", type, " ", c.name, " ", s[0], "x", s[1]), written(gil::view(im), info), c.scan ? kind_scan : kind_noscan);
            ++n;
        }
        if (gil::is_bit_aligned<typename std::remove_reference<typename Img::view_t::reference>::type>::value && !c.tiled && c.compression != COMPRESSION_PACKBITS) {
            Img im(1000, 260); cio::fill_view(gil::view(im), fs(seed0 + 500 + n), 0);      // 32 KB (1 bit) / 130 KB (4 bit)
            add(vh::cat(type, "-", c.name), vh::cat("written:", type, " ", c.name, " 1000x260"), written(gil::view(im), info), c.scan ? kind_scan : kind_noscan);
        }
    }
}
#endif
#ifdef C13_TIFF
// parts: 5 gray8+rgb8   6 rgba8+gray16   8 rgb16+gray32f   9 gray1+gray4
#if C13_PART == 5
typedef gil::gray8_image_t T0; typedef gil::rgb8_image_t T1; static const char* N0 = "gray8"; static const char* N1 = "rgb8";
#elif C13_PART == 6
typedef gil::rgba8_image_t T0; typedef gil::gray16_image_t T1; static const char* N0 = "rgba8"; static const char* N1 = "gray16";
#elif C13_PART == 8
typedef gil::rgb16_image_t T0; typedef gil::gray32f_image_t T1; static const char* N0 = "rgb16"; static const char* N1 = "gray32f";
#elif C13_PART == 9
typedef gil::gray1_image_t T0; typedef gil::gray4_image_t T1; static const char* N0 = "gray1"; static const char* N1 = "gray4";
#endif
// the any_image offers both native types of this part and one foreign alternative
typedef gil::any_image<T0, T1, gil::rgb32f_image_t> any_t;   // (a foreign type that no file of this part matches)
enum { K_T0 = 0, K_T1 = 1, K_NOSCAN = 100 };
static void build_files() {
    add_tiff_type<T0>(N0, K_T0, K_T0 + K_NOSCAN, 1000);
    add_tiff_type<T1>(N1, K_T1, K_T1 + K_NOSCAN, 2000);
#if C13_PART == 6
    if (vh::thorough()) add_fixture("tiff", "test.tif", "rgba8-strip-lzw", K_T0);
#endif
}
static void run_file(entry_t const& e, int path, int sub) {
    bool scan = e.kind < K_NOSCAN;
    switch (e.kind % K_NOSCAN) {
    case K_T0: checks<tag_t, T0, T0, any_t>(FMT, e.f, 0, scan).run(path, sub); break;
    case K_T1: checks<tag_t, T1, T1, any_t>(FMT, e.f, 1, scan).run(path, sub); break;
    }
}
#endif

int main(int argc, char** argv) {
    vh::init(argc, argv);
    cio::install_cleanup();
    build_files();
    for (size_t i = 0; i < files().size(); ++i)
        for (int p = 0; p < NPATHS; ++p) {
            entry_t const& e = files()[i];
            std::string id = e.f.name.substr(e.f.name.find(':') + 1);
            for (int sub = 0; sub < (p == 0 ? 16 : p == 3 ? 4 : p == 2 ? 5 : p == 1 ? 6 : p == 8 ? (int)cio::SK_COUNT : 1); ++sub) {
                // the case class carries format, path, file variant and (sub-rectangles) the rectangle class, so
                // that a fatal report is attributed as precisely as an oracle mismatch
                std::string cls = vh::cat("c13.", FMT, ".", PATHS[p], ".", e.f.variant);
                if (p == 0) cls += vh::cat(".", XCLS[sub / 4], "-", YCLS[sub % 4]);
                if (p == 2 && sub > 0) cls += vh::cat(".", sub == 1 ? "skip-then-deref" : sub == 2 ? "deref-skip-deref" : sub == 3 ? "advance" : "alternate");
                if (p == 8) cls += vh::cat(".", cio::stream_kind_name(sub));
                if (p == 1 && sub > 0) cls += vh::cat(".subrect-", sub == 1 ? "gray8" : sub == 2 ? "rgb8" : sub == 3 ? "rgba8" : sub == 4 ? "rgb16" : "gray32f");
                if (p == 3) cls += vh::cat(".", sub == 0 ? "whole" : sub == 1 ? "xoff-toright-yoff-tobottom" : sub == 2 ? "x0-shortw-y0-shorth" : "xoff-shortw-yoff-shorth");
                if (!vh::begin_case(cls, id)) continue;
                run_file(e, p, sub);
                vh::obs(vh::cat("path.", PATHS[p]));
                vh::obs(vh::cat("variant.", e.f.variant));
            }
        }
    return vh::finish();
}
