// C12 instantiation probes: view organisations of a *supported* pixel type that a writer rejects at
// compile time.  The property promises a result for them ("any organisation: interleaved, planar,
// sub-view, stepped, bit-aligned"; "file name, FILE* or std::ostream"); a probe that does not compile
// is reported by the driver as C12|uninstantiable|<probe>|<first failing GIL header>.
// Built with -DC12_PROBE=k; never run.
#include <boost/gil.hpp>
#include <sstream>
#include <cstdio>
namespace gil = boost::gil;
#if C12_PROBE == 0
#include <boost/gil/extension/io/png.hpp>
int main() { gil::gray1_image_t im(9, 3); std::stringstream ss; gil::write_view(ss, gil::const_view(im), gil::png_tag()); }
#elif C12_PROBE == 1
#include <boost/gil/extension/io/pnm.hpp>
int main() { gil::gray1_image_t im(9, 3); std::stringstream ss; gil::write_view(ss, gil::const_view(im), gil::pnm_tag()); }
#elif C12_PROBE == 2
#include <boost/gil/extension/io/pnm.hpp>
int main() { gil::gray1_image_t im(9, 3); std::stringstream ss; gil::write_view(ss, gil::subsampled_view(gil::view(im), 2, 1), gil::pnm_tag()); }
#elif C12_PROBE == 3
#include <boost/gil/extension/io/tiff.hpp>
int main() { gil::gray1_image_t im(9, 3); std::stringstream ss; gil::write_view(ss, gil::subsampled_view(gil::view(im), 2, 1), gil::tiff_tag()); }
#elif C12_PROBE == 4
#include <boost/gil/extension/io/tiff.hpp>
int main() { gil::gray1_image_t im(9, 3); std::stringstream ss; gil::write_view(ss, gil::const_view(im), gil::tiff_tag()); }
#elif C12_PROBE == 5
#include <boost/gil/extension/io/tiff.hpp>
int main() { gil::rgb8_image_t im(9, 3); FILE* f = tmpfile(); gil::write_view(f, gil::view(im), gil::tiff_tag()); }
#elif C12_PROBE == 6
// control: must compile (a probe set that cannot succeed proves nothing)
#include <boost/gil/extension/io/png.hpp>
int main() { gil::gray1_image_t im(9, 3); std::stringstream ss; gil::write_view(ss, gil::subsampled_view(gil::view(im), 2, 1), gil::png_tag()); }
#endif
