from props import tu, run

SRC = "harness/c05_pixel_pairing.cpp"
NPARTS = 19
# cases per part (one per model + one per ordered pair + binding cases); the same in both tiers
CASES = [78, 76, 80, 85, 84, 96, 56, 56, 56, 56, 23, 57, 99, 60, 60, 92, 74, 88, 52]   # part 10: every route to a planar pixel (iterators, &ref / &pixel pointers, const conversions)

CFG = dict(
    level="exploration",
    level_text=("Runs the real construction / assignment / ==,!= / at_c / semantic_at_c / get_color / operator[] / static_* code on "
                "every ordered pair (549 pairs) of 125 pixel models: pixel<T,L> values and references, planar references (mutable and "
                "const), packed pixels and bit-aligned references (mutable and const) of gray, rgb{rgb,bgr}, rgba{rgba,bgra,argb,abgr}, "
                "cmyk, devicen<2..5>, channel types u8/u16/float32 and packed bit sizes 565, 332, 222, 123, 4444, 5551, 2222, 4, 1. Each named "
                "colour is written and read back through raw bytes/bits located by hand-written layout tables (the layout's name is the "
                "order in memory), never through GIL. One-hot, seeded and swept colours; functors record what the static_* algorithms hand "
                "them. Observation of bounded inputs under ASan+UBSan (-O0) and, in the thorough tier, the optimised native build."),
    level_note=("trusts the harness's layout tables and g++ 12; only the instantiated models are decided; user-defined layouts "
                "(kymc, permuted devicen) are included because they are the only way to reach a non-identity mapping for cmyk and the 2- and "
                "5-channel colour bases; bit-aligned references use the bit field GIL's bit_aligned_image_type chooses (pixel bits + 7)"),
    technique="run the real pixel operations on holder objects that own the storage; oracle = raw memory + hand-written layout tables; recording functors for static_*",
    rule=("one case per ordered pair (source model, destination model) of a family of compatible models, one case per model for the unary "
          "accessors/algorithms, one per proxy-binding constructor. evaluations = oracle comparisons made (colour read-backs, ==/!= verdicts, "
          "address checks, visit-log checks). distinct_nontrivial = colour vectors tried per case that are distinct by construction "
          "(2N one-hot / inverted one-hot vectors, all-0/all-max, every swept value of each channel) plus the measured number of distinct "
          "seeded (colours, bit offset) vectors; every one is non-trivial: the destination is pre-filled with the bitwise complement, so a "
          "no-op or a mis-paired copy is visible."),
    exhaustive={"quick": False, "thorough": False},
    exhaustive_domain={"quick": "every value of each <=10-bit channel in turn (others seeded); 16-bit channels every 251st value + ends; float 64 seeded values per channel; all 8 bit offsets of bit-aligned references",
                       "thorough": "every value of each integral channel in turn (8-, 16-bit and packed; others seeded); float 4096 seeded values per channel; all 8 bit offsets"},
    types=["pixel<u8|u16|float32, gray|rgb|bgr|rgba|bgra|argb|abgr|cmyk|kymc*|devicen2..5 (+ one permuted layout each*)>  (*user-defined layout<>)",
           "planar_pixel_reference<T&|T const&, rgb|rgba|cmyk|devicen2..5>",
           "packed_pixel<u8|u16, sizes 565|332|222|123|4444|5551|2222|4|1, every layout of the colour space>",
           "bit_aligned_pixel_reference<min_fast_uint<bits+7>, same sizes, every layout, mutable|const> at bit offsets 0..7"],
    assumptions=["layout tables written by hand from the layout names (\"argb\" = a,r,g,b in memory); packed/bit-aligned: first channel in memory at the least significant bits (the documented rgb123 example)",
                 "pairs are formed inside a family of compatible models only (same colour space, same channel value types per colour)",
                 "bit-aligned references get >= 16 bytes of slack behind the pixel (F1 is C01's) and a BitField of pixel bits + 7",
                 "checks named *-outside (bytes/bits next to the destination changed) are auxiliary: the property does not state them",
                 "16-bit sweeps are stratified in the quick tier; float channels are sampled in both tiers"],
    tus=[tu("c05_asan%d" % k, SRC, "asan", extra=["-O0", "-DC05_PART=%d" % k]) for k in range(NPARTS)]
        + [tu("c05_native%d" % k, SRC, "native", extra=["-DC05_PART=%d" % k], tiers=("thorough",)) for k in range(NPARTS)],
    runs=[run("c05_asan%d" % k, shards={"quick": 2, "thorough": 8}, min_cases={"quick": CASES[k], "thorough": CASES[k]}) for k in range(NPARTS)]
        + [run("c05_native%d" % k, shards={"quick": 2, "thorough": 4}, min_cases={"quick": CASES[k], "thorough": CASES[k]},
               secondary=True, tiers=("thorough",)) for k in range(NPARTS)],
    require_obs=["pair.rgba.u8", "pair.rgba.packed4444", "pair.rgba.packed5551", "pair.rgb.packed565", "pair.cmyk.u8", "pair.devicen5.u8",
                 "model.rgba.f32", "model.rgb.packed123", "planar-access.view", "planar-access.ptr-from-pixel",
                 "compat-table.compatible", "compat-table.incompatible", "convert.rescale", "convert.same-channel-types", "pair.rgb.packed234", "pair.rgba.packed1234",
                 "pair.rgba.packed_16__16__16__16_", "pair.rgb.packed8_24__32_", "pair.devicen5.packed_12__12__12__12__12_", "pair.rgb.packed555", "pair.rgb.packed888"],
)
