from props import tu, run

NPARTS = 10
# cases per part (models + ordered pairs + binding cases), the same in both tiers
CASES = [0] * NPARTS

CFG = dict(
    level="exploration",
    level_text="(filled in below)",
    level_note="",
    technique="",
    rule="",
    exhaustive={"quick": False, "thorough": False},
    exhaustive_domain={"quick": "", "thorough": ""},
    types=[],
    assumptions=[],
    tus=[tu("c05_asan%d" % k, "harness/c05_pixel_pairing.cpp", "asan", extra=["-O0", "-DC05_PART=%d" % k]) for k in range(NPARTS)],
    runs=[run("c05_asan%d" % k, shards=2, min_cases={"quick": 1, "thorough": 1}) for k in range(NPARTS)],
)
