from props import tu, run, FCO, NONULL
from propcfg_names import ORG_NAMES

ORGS = list(range(27)) + [100]

CFG = dict(
    level="exploration",
    level_text=("For 25 memory-based pixel organisations and a virtual locator, every shape w,h in 0..N with padded rows "
                "(alignments 0/4/16), the base view, every depth-1 transformation of it (negative x/y steps, transposed, "
                "sub-view, subsampled), an nth_channel view and default-constructed views: ~45 navigation expressions are "
                "compared by pixel identity with view(x,y) at every coordinate and from every anchor; the random-access laws "
                "are evaluated for ALL pairs (i,j) of 1-D positions in [0..w*h] (including past-the-end, multi-row moves) and "
                "all pairs inside every row and column; seeded locator walks are tracked against a shadow position; "
                "is_1d_traversable()==true is checked to imply that row ends are contiguous. Complete on the bounded domain."),
    level_note="identity = absolute bit position of every channel of the dereferenced reference (coordinates for the virtual locator); only in-range positions are dereferenced",
    technique="exhaustive bounded enumeration of navigation paths and iterator-law instances on the real headers, identity oracle, ASan+UBSan",
    rule=("one case per (organisation, w, h, alignment); evaluations = individual navigation/law checks; distinct_nontrivial = "
          "distinct (organisation, shape, derived view) triples visited, distinct by construction (empty and default views "
          "included: they exercise the iterator algebra without dereferencing)."),
    exhaustive={"quick": True, "thorough": True},
    exhaustive_domain={"quick": "w,h in 0..7, base + 10 depth-1 views (+nth_channel), all (i,j) pairs, walks of 16 moves",
                       "thorough": "w,h in 0..12, depth-2 words for w*h<=36, all (i,j) pairs, walks of 64 moves"},
    types=ORG_NAMES,
    assumptions=["locator walks are seeded samples (4 walks per view)", "anchors: all for views of <=36 pixels, a seeded quarter above",
                 "BOOST_ASSERTs off (NDEBUG)"],
    tus=[tu("c03_org%d" % k, "harness/c03_navigation.cpp", "asan", extra=NONULL + ["-DORG=%d" % k]) for k in ORGS],
    runs=[run("c03_org%d" % k, shards={"quick": 2, "thorough": 8}, min_cases={"quick": 64, "thorough": 169}) for k in ORGS],
)
