from props import tu, run, NONULL

SRC = "harness/c14_dynamic_image.cpp"
NPARTS = 8
# cases per part: 6 alternatives x 3 (part 0); 6 x 3 + 30 fill (1); 4 forms x 36 pairs (2); 2 x 36 (3, 4, 6, 7);
# 3 x 25 pairs + 5 (5)
CASES = [18, 48, 144, 72, 72, 80, 72, 72]

CFG = dict(
    level="exploration",
    level_text="(below)",
    level_note="",
    technique="",
    rule="",
    exhaustive={"quick": False, "thorough": False},
    exhaustive_domain={"quick": "", "thorough": ""},
    types=[],
    assumptions=[],
    tus=[tu("c14_asan%d" % k, SRC, "asan", extra=["-O0"] + NONULL + ["-DC14_PART=%d" % k]) for k in range(NPARTS)]
        + [tu("c14_probe_equal_planar", SRC, "asan", extra=["-O0"] + NONULL + ["-DC14_PART=5", "-DC14_PROBE_EQUAL_PLANAR"], probe="equal_pixels.planar"),
           tu("c14_probe_transposed", SRC, "asan", extra=["-O0"] + NONULL + ["-DC14_PART=8"], probe="transposed_view"),
           tu("c14_probe_nth_channel", SRC, "asan", extra=["-O0"] + NONULL + ["-DC14_PART=9"], probe="nth_channel_view")],
    runs=[run("c14_asan%d" % k, shards=2, min_cases={"quick": CASES[k], "thorough": CASES[k]}) for k in range(NPARTS)],
)
