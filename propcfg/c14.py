from props import tu, run, NONULL

SRC = "harness/c14_dynamic_image.cpp"
NPARTS = 8
# cases per part: 6 alternatives x 3 (part 0); 6 x 3 + 30 fill (1); 4 forms x 36 pairs (2); 2 x 36 (3, 4, 6, 7);
# 3 x 36 pairs + 6 (5); the same in both tiers (the thorough tier widens the shapes inside each case)
CASES = [18, 48, 144, 72, 72, 114, 72, 72]
X = ["-O0"] + NONULL

CFG = dict(
    level="exploration",
    level_text=("Differential run-time monitor: every query, view transformation and algorithm overload of any_image / any_image_view "
                "is executed on the variant (over a byte arena the harness owns, with row padding and margins) and on the concrete "
                "image/view over a byte-identical clone; dimensions, index(), pixel identities (address of every channel of every pixel), "
                "converted pixel values and whole arenas must agree. All 6 alternatives, all 36 ordered pairs in the variant x variant, "
                "variant x concrete and concrete x variant forms, every shape of the tier; incompatible pairs must throw std::bad_cast with "
                "the destination arena unchanged. Deep/shallow copy semantics and recreate are observed on owning any_images. Overloads "
                "that do not instantiate at all would be reported as build failures of their part."),
    level_note=("trusts the concrete GIL operation as the reference (C02/C04 judge those) and the hand-written compatibility classes; "
                "only nearest-neighbour resampling; ASan+UBSan at -O0"),
    technique="differential execution variant vs concrete object on cloned byte arenas, ASan+UBSan",
    rule=("one case per (operation, form, alternative or ordered pair of alternatives); inside a case every shape w,h of the tier "
          "(25 quick / 64 thorough), for sub-images every rectangle, for sub-sampling steps 1..3 x 1..3. evaluations = comparisons "
          "variant-vs-concrete made; distinct_nontrivial = (operation, form, pair, shape[, rectangle/step]) tuples, distinct by "
          "construction of the loops; arenas are filled with seeded bytes so that every comparison is over non-trivial content "
          "(empty shapes 0xh / wx0 are counted: they are the boundary the property quantifies over)."),
    exhaustive={"quick": False, "thorough": False},
    exhaustive_domain={"quick": "all alternatives and ordered pairs of the type list x shapes {0,1,2,3,5}^2 x all sub-rectangles x steps {1,2,3}^2; pixel contents seeded",
                       "thorough": "the same over shapes {0,1,2,3,4,5,7,8}^2"},
    types=["any_image<gray8, gray16, rgb8, rgb8_planar, bgr8, rgba8> and its view_t / const_view_t",
           "transformed variants: dynamic x/y/xy step view lists, colour-converted view lists (gray8, rgb8, rgba8, gray16 + user converter)"],
    assumptions=["the concrete call is the oracle (the property's own wording); its correctness is C02/C04's",
                 "compatibility classes written by hand: {gray8}, {gray16}, {rgb8, rgb8 planar, bgr8}, {rgba8}",
                 "compatible pairs of copy_pixels / copy_and_convert_pixels / equal_pixels are given views of equal dimensions (their precondition); "
                 "incompatible pairs (must throw) and resample_pixels (no such precondition) are also run with differing widths and/or heights",
                 "caller-supplied objects carry run-time state: converter (offset + call counter) in every form of copy_and_convert_pixels and in "
                 "color_converted_view, sampler (shift + call counter) and seeded matrix in every form of resample_pixels, for_each_pixel functor (multiplier, start count)",
                 "equal_pixels / operator== include the planar alternative (F2 fixed in /repo); -DC14_EQ_WITHOUT_PLANAR restores the reduced list",
                 "nth_channel_view / transposed_view of a variant (parts 8, 9) did not instantiate before the fix: commits in /repo"],
    tus=[tu("c14_asan%d" % k, SRC, "asan", extra=X + ["-DC14_PART=%d" % k]) for k in range(NPARTS)]
        # parts 8 (transposed_view) and 9 (nth_channel_view) of a variant did not instantiate on the pinned
        # tree (reported as uninstantiable probes); since the fix: commits 6dacda3 / db95fec they are ordinary runs
        + [tu("c14_asan8", SRC, "asan", extra=X + ["-DC14_PART=8"]),
           tu("c14_asan9", SRC, "asan", extra=X + ["-DC14_PART=9"]),
           # copy_and_convert_pixels with a stateful user converter, any/concrete and concrete/any forms
           tu("c14_asan10", SRC, "asan", extra=X + ["-DC14_PART=10"]),
           # storage geometry (row pitch, row/plane offsets, alignment residues) of owning any_images after every mutating operation
           tu("c14_asan11", SRC, "asan", extra=X + ["-DC14_PART=11"])],
    runs=[run("c14_asan%d" % k, shards={"quick": 2, "thorough": 6}, min_cases={"quick": CASES[k], "thorough": CASES[k]}) for k in range(NPARTS)]
        + [run("c14_asan8", shards=2, min_cases={"quick": 6, "thorough": 6}),
           run("c14_asan9", shards=2, min_cases={"quick": 6, "thorough": 6}),
           run("c14_asan10", shards={"quick": 2, "thorough": 6}, min_cases={"quick": 72, "thorough": 72}),
           run("c14_asan11", shards={"quick": 2, "thorough": 6}, min_cases={"quick": 6, "thorough": 6})],
    require_obs=["binary.compatible", "binary.bad_cast", "binary.converted", "equal.compatible", "equal.bad_cast", "fill.compatible", "fill.bad_cast",
                 "binary.shapes-differ.bad_cast", "binary.shapes-differ.ok", "equal.shapes-differ.bad_cast", "geometry"],
)
