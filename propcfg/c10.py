from props import tu, run, FCO, NONULL

SRC = "harness/c10_image_container.cpp"
IMGS = ["rgb8", "rgb8_planar", "gray16", "ba_rgb123", "telem"]
CONF = [(i, f, "c++14") for i in range(5) for f in (0, 1, 2)] + [(i, f, "c++17") for i in range(5) for f in (2, 3)]


def _name(i, f, std):
    return "c10_i%d_f%d_%s" % (i, f, std.replace("+", "p"))


CFG = dict(
    level="fault_enumeration",
    level_text=("Seeded histories of up to 12 (quick) / 40 (thorough) operations over a pool of three images and two "
                "allocator resources - the five constructors, copy / converting copy / move construction and assignment, "
                "self-assignment, the eight recreate overloads, member and free swap, pixel writes, destruction - for five "
                "image types (interleaved, planar, 16-bit, bit-aligned, and image<telem> with a non-trivial element) and four "
                "allocator flavours (always-equal, stateful propagating, stateful non-propagating, std::pmr), in C++14 and "
                "C++17 mode. After EVERY operation a ledger allocator checks no double/foreign free and size/resource match, "
                "foreign storage, live blocks <= live images, a shadow model checks dimensions and every pixel of every live "
                "image (deep copies, no cross-talk), row alignment, storage reuse on same-or-smaller recreate, an element "
                "live-set checks construct/destroy pairing; at quiescence nothing is live (+LeakSanitizer). Each history is "
                "then re-run once per allocation point and (for telem) per element-construction point with a failure "
                "injected there - complete per history - and the surviving objects are re-read and destroyed."),
    level_note="histories are seeded samples; fault points are enumerated completely per history (construction points capped at ~200 per history)",
    technique="ledger allocator + tracked element type + shadow model over seeded operation histories with exhaustive per-history fault injection, ASan+LSan+UBSan",
    rule=("one case per (first, second) operation kind of the exhaustive triples (21 third kinds inside) and one case per seeded history; evaluations = per-operation invariant checks over all runs of the history (fault-free + one per "
          "fault point); distinct_nontrivial = distinct operation sequences (hash of the generated op list, measured), each of "
          "which executed at least 3 generated operations."),
    exhaustive={"quick": False, "thorough": False},
    exhaustive_domain={"quick": "every ordered triple of the 21 operation kinds after a fixed prelude (complete over kinds^3, fixed parameters) + 150 seeded histories, x 25 (image type, allocator flavour, language mode) configurations; every allocation point of each seeded history",
                       "thorough": "all op triples x 2 parameter variants + 10000 seeded histories of up to 40 operations x 25 configurations; any_image: 20000 histories"},
    types=["image<rgb8_pixel_t,false,A>", "image<rgb8_pixel_t,true,A>", "image<gray16_pixel_t,false,A>", "bit_aligned_image3_type<1,2,3,rgb_layout_t,A>",
           "image<telem,false,A>", "any_image<rgb8, gray16, rgb8 planar over the ledger allocator>", "A in {led::alloc always-equal, propagating, sticky; std::pmr::polymorphic_allocator}"],
    assumptions=["swap is only generated between images whose allocators are equal or propagate on swap (anything else is undefined for any container)",
                 "recreate(..., alloc_in) gets a different allocator only where image::swap exchanges allocators (C++14 mode or propagate_on_container_swap)",
                 "after an exception or a move the source/target state is only required to be valid: it is re-read and becomes the model",
                 "contents after a plain recreate are unspecified and are overwritten by the harness"],
    tus=[tu(_name(i, f, s), SRC, "asan", std=s, extra=NONULL + ["-DIMG=%d" % i, "-DFLAV=%d" % f]) for (i, f, s) in CONF]
        + [tu("c10_any_image", "harness/c10_any_image.cpp", "asan", extra=NONULL)],
    runs=[run(_name(i, f, s), shards={"quick": 1, "thorough": 8}, leaks=True,
              min_cases={"quick": 591, "thorough": 10441}) for (i, f, s) in CONF]
        + [run("c10_any_image", shards={"quick": 2, "thorough": 8}, leaks=True, min_cases={"quick": 400, "thorough": 20000})],
)
