from props import tu, run, FCO, NONULL

ORGS = list(range(27)) + [100]
NAMES = ["gray8", "rgb8", "bgr8", "rgba8", "argb8", "cmyk8", "gray16", "rgb16", "rgb32f", "rgb8_planar",
         "rgba16_planar", "cmyk32f_planar", "packed_rgb565", "packed_bgr556", "packed_gray3", "packed_rgba2222",
         "ba_gray1", "ba_gray2", "ba_gray4", "ba_gray7", "ba_bgr121", "ba_rgb123", "ba_rgb565", "ba_rgb444",
         "ba_dev5x8", "dev5x8_planar", "dev2x16_planar", "virtual_2d_locator<coordinate functor>"]

CFG = dict(
    level="exploration",
    level_text=("For 25 memory-based pixel organisations (pointer, planar, packed, bit-aligned locators; step locators for "
                "every derived view; dereference adaptors via nth/kth_channel_view and color_converted_view) and a virtual "
                "locator, every shape w,h in 0..N, every word over {flipUD, flipLR, transposed, rot90cw, rot90ccw, rot180, "
                "subimage, subsampled(2,1),(1,2),(2,3)} up to depth k and every coordinate: the derived view's dimensions, "
                "the *pixel identity* (absolute bit position of every channel) of derived(x,y) against source(M(x,y)) with M "
                "composed from the documented formulas, the value, and a write through the derived view followed by a diff "
                "of the image's whole allocation (only the source pixel's / channel's bits may change). The bounded domain "
                "is enumerated completely; nothing is claimed beyond the bounds and the instantiated types."),
    level_note="trusts the harness's coordinate model (documented formulas) and channel-identity extraction; ASan/UBSan + _GLIBCXX_ASSERTIONS watch the same executions",
    technique="exhaustive bounded enumeration of view compositions on the real headers; pixel-identity and whole-allocation diff oracles; ASan+UBSan",
    rule=("one case per (organisation, w, h, alignment); inside it every word up to the tier's depth is applied and every "
          "coordinate checked. evaluations = pixel identity/value checks + write-through checks; distinct_nontrivial = number of "
          "distinct (organisation, shape, word) views visited (distinct by construction of the enumeration; empty shapes included "
          "because they check dimensions/begin==end and that constructing the view dereferences nothing)."),
    exhaustive={"quick": True, "thorough": True},
    exhaustive_domain={"quick": "w,h in 0..6, words up to depth 2 over 10 letters (+nth_channel/kth_channel/color_converted terminal), all coordinates, 26 organisations; plus 4 large shapes at depth 1",
                       "thorough": "w,h in 0..12, words up to depth 3 (depth 2 when w*h>64), all coordinates, 26 organisations; plus 4 large shapes at depth 1"},
    types=NAMES,
    assumptions=["alignment per shape is taken from {0,4,8,16} by a fixed rule, not all alignments per shape",
                 "subimage letter uses one interior rectangle per shape (1-pixel border removed where possible)",
                 "BOOST_ASSERTs are off (NDEBUG) as in the repository's test build"],
    tus=[tu("c02_org%d" % k, "harness/c02_view_transforms.cpp", "asan", extra=NONULL + ["-DORG=%d" % k]) for k in ORGS],
    runs=[run("c02_org%d" % k, shards={"quick": 2, "thorough": 8}, min_cases={"quick": 49, "thorough": 169}) for k in ORGS],
)
