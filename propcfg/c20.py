from props import tu, run

CFG = dict(
    level="exploration",
    level_text=("Runs the real bresenham_line_rasterizer on every ordered pair of end points of a (2N+1)^2 window (all octants, "
                "complete), both circle rasterizers on every radius 0..R and the ellipse rasterizer on every semi-axes pair up "
                "to a bound, each through a counting output iterator over exactly point_count() slots, and judges every emitted "
                "point with exact integer oracles (count, first/last, 8-connectivity, monotone major axis, bounding box, minor-axis "
                "distance <= 1; circle: distance band, 8-fold symmetry, flood-fill closedness; ellipse: trajectory in [0,a]x[0,b], "
                "curve crosses the 3x3 neighbourhood, connected (a,0)->(0,b)).  apply_rasterizer is run on views of exactly the "
                "bounding box carved out of an arena that is compared byte for byte with a model, and on heap images of exactly "
                "the bounding box under ASan.  Complete on the bounded domains; larger coordinates are not observed."),
    level_note="trusts the harness's integer oracles and g++ 12 ASan/UBSan; gray8 and rgb8 interleaved views only for apply_rasterizer",
    technique="exhaustive enumeration of the bounded input domains of the real rasterizers against exact integer oracles; arena diff + ASan for apply_rasterizer",
    rule=("one case per line start point (all end points of the window inside the case), per (circle rasterizer, radius), per "
          "ellipse horizontal semi-axis (all vertical semi-axes inside), per dx for apply_rasterizer(line) in an arena, and one "
          "case per shape instance for apply_rasterizer on a tight heap image.  evaluations = rasterizer runs judged "
          "(trajectory runs + apply_rasterizer runs); distinct_nontrivial = distinct (start,end) pairs + (rasterizer,radius) + "
          "(a,b) pairs + apply instances, distinct by construction of the nested loops."),
    exhaustive={"quick": True, "thorough": True},
    exhaustive_domain={"quick": "lines: all 25^4 = 390625 ordered end-point pairs in [-12,12]^2; circles r = 0..64 (both rasterizers); ellipses a,b = 1..32; apply_rasterizer(line) all directions in [-20,20]^2.  Not exhaustive: the size class 'large' (lines of extent 1000..5000 at 12 minor extents x 8 orientations + 300 seeded; circles r in {513..5000} + 4 seeded; 25 ellipse pairs up to 5000 incl. 2000x3, 5000x1) is a sample",
                       "thorough": "lines: all 49^4 = 5764801 ordered end-point pairs in [-24,24]^2; circles r = 0..512; ellipses a,b = 1..96; apply_rasterizer(line) all directions in [-40,40]^2.  Not exhaustive: the size class 'large' (3000 seeded lines, 51 radii up to 20000, 119 ellipse pairs up to 30000, one 3999x3999 drawing) is a sample"},
    types=["bresenham_line_rasterizer", "trigonometric_circle_rasterizer", "midpoint_circle_rasterizer",
           "midpoint_ellipse_rasterizer", "apply_rasterizer on gray8_view_t / rgb8_view_t (interleaved)"],
    assumptions=["the ellipse rasterizer has no point_count(); its observable output is obtain_trajectory() (first quadrant) and the pixels apply_rasterizer sets",
                 "ellipse centre is 1-based and >= 1 as documented; semi-axes >= 1; circle radius >= 0",
                 "'within one pixel' = minor-axis distance <= 1 (lines), |dist to centre - r| <= 1 (circles), ideal curve meets the closed 3x3 pixel neighbourhood (ellipse)",
                 "'closed' = the point set separates the centre from the outside under 4-connected flood fill and is one 8-connected component",
                 "clipped ellipse views: 3 seeded (size, centre) choices per (a,b)",
                 "large shapes: same oracles in exact 64/128-bit integers on the point lists; set-level circle oracles (symmetry, closedness, connectedness) only up to r = 1500 (2500 thorough); the ellipse flood fill is replaced above 2^24 grid cells by 'arc 8-connected from the x axis to the y axis'; circle/ellipse keys carry the suffix .large (line keys keep their direction class: F21b is the same defect at any extent)"],
    tus=[tu("c20_asan", "harness/c20_rasterizers.cpp", "asan")],
    runs=[run("c20_asan", shards=16, min_cases={"quick": 1190, "thorough": 4400})],
    require_obs=["line.dir.xmajor.xpos.ypos", "line.dir.xmajor.xneg.yneg", "line.dir.ymajor.xpos.yneg", "line.dir.ymajor.xneg.ypos",
                 "line.dir.diagonal.*", "line.dir.horizontal.*", "line.dir.vertical.*", "line.dir.point.*",
                 "ellipse.apply.clipped", "ellipse.apply.whole", "large.line", "large.circle", "large.ellipse"],
)
