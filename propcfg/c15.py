from props import tu, run, FCO, NONULL

_SRC = "harness/c15_convolve.cpp"
_DEPS = ["harness/c15_util.hpp"]

CFG = dict(
    level="exploration",
    level_text=("Runs the real correlate_/convolve_ rows/cols (dynamic and fixed-size kernels), detail::convolve_2d and "
                "extend_row/col/boundary under ASan+UBSan on every small image shape (including empty and narrower than "
                "the kernel), every kernel size with every centre and all five boundary options, writing into a "
                "destination view carved out of a noise-filled arena, and compares every destination pixel (and every "
                "arena byte outside the destination) with the textbook sum computed by the obvious loop in double "
                "arithmetic. Bounded enumeration of shapes/kernels with seeded contents: exploration, not proof."),
    level_note=("trusts the harness's double-precision oracle (exact for the integer regimes) and g++ 12 sanitizers; "
                "reads outside the source are visible only as ASan reports (tight heap sources, padding exactly as declared) "
                "or as wrong values"),
    technique=("differential execution of the real algorithms against a direct-summation oracle; destination arena with "
               "byte-for-byte comparison outside the view; ASan/UBSan/_GLIBCXX_ASSERTIONS fatal"),
    rule=("one case per (pixel regime, function, boundary option, image shape); inside a case every kernel size "
          "1..K with every centre position is executed once (three times in the thorough tier; repetitions are not counted as distinct) with seeded kernel taps and seeded image contents. "
          "evaluations = GIL calls whose complete output was compared; distinct_nontrivial = distinct "
          "(regime, function, option, shape, kernel size, centre[, extend_count]) tuples, distinct by construction of "
          "the nested enumeration; every tuple is non-trivial except that empty shapes have no output pixel to compare "
          "(they still check that nothing is written or read). Functions: correlate_rows/cols, convolve_rows/cols, the "
          "four *_fixed variants (sizes 1,3,5,7), detail::convolve_2d with kernel_2d and kernel_2d_fixed<3|5> "
          "(every centre (y,x)), extend_row/extend_col/extend_boundary x {extend_zero, extend_constant, extend_padded} "
          "x extend_count 0..E."),
    exhaustive={"quick": False, "thorough": False},
    exhaustive_domain={
        "quick": ("complete over: axis length 0..9 x across 0..4, kernel sizes 1..7 (fixed 1,3,5,7) x every centre, 5 options, "
                  "8 functions, 13 regimes (4 same-layout, 5 with differing source/accumulator/destination channel order, 4 with accumulator type == pixel type run both out of place and in place); convolve_2d shapes 0..6^2, n 1..5 every (cy,cx); extend_* shapes 1..6^2, count 0..3. "
                  "Image contents and kernel taps are seeded samples."),
        "thorough": ("axis length 0..16 x across 0..6, kernel sizes 1..11 (fixed 1,3,5,7); convolve_2d shapes 0..9^2, n 1..7; "
                     "extend_* shapes 1..9^2, count 0..5; contents seeded, 3 repetitions per 1-D tuple"),
    },
    types=["gray8 -> pixel<int,gray> -> gray32s (kernel_1d<int>, kernel_1d_fixed<int,N>)",
           "rgb8 -> pixel<float,rgb> -> rgb32f (integer-valued float kernels)",
           "gray32f -> pixel<float,gray> -> gray32f (fractional kernels, tolerance)",
           "gray16s -> pixel<int,gray> -> gray32s (negative samples, int kernels)",
           "mixed channel orders, compared per colour: bgr8 -> pixel<float,rgb> -> rgb32f; rgb8 -> pixel<float,rgb> -> bgr32f; "
           "bgr8 -> pixel<float,rgb> -> bgr32f; rgba8 -> pixel<float,rgba> -> abgr32f; planar rgb8 -> pixel<float,rgb> -> bgr32f",
           "convolve_2d with mixed channel orders: bgr8->rgb32f, rgba8->abgr32f, planar rgb8->bgr32f",
           "accumulator == source == destination pixel type, out of place and in place (same view as source and destination): "
           "gray8 with gray8_pixel_t accumulator (sums modulo 256), gray32s with gray32s_pixel_t, gray32f with gray32f_pixel_t "
           "(tolerance), rgb32f with pixel<float,rgb>",
           "convolve_2d: gray8->gray32f, rgb8->rgb32f with detail::kernel_2d<float>, detail::kernel_2d_fixed<float,3|5>",
           "extend_row/col/boundary: gray8, rgb8"],
    assumptions=["in place means exactly the same view as source and destination (as detail::convolve_1d / box_filter do for their "
                 "second pass); partially overlapping views are not promised and not exercised; convolve_2d is not run in place",
                 "an unsigned 8-bit accumulator computes modulo 256 (well-defined unsigned narrowing); the oracle reduces its exact sum modulo 256",
                 "channels pair by colour, not by memory position, whenever source, accumulator and destination layouts differ "
                 "(GIL's convention for pixel operations; the functions only require compatible colour spaces)",
                 "integer regimes are compared exactly (all intermediate values < 2^24); the float regime with tolerance "
                 "1e-5*sum|k|*max|src| (1-D) and 1e-4*sum|k|*255 (convolve_2d, fractional kernels)",
                 "preconditions respected: kernel non-empty, centre < size, fixed kernels odd, source and destination of equal "
                 "dimensions, extend_padded sources really have the declared padding, extend_* sources non-empty",
                 "-fno-sanitize=null in part 2 only: nth_channel_view of an empty (null-storage) view binds a reference to "
                 "*nullptr without loading through it (DESIGN section 4)",
                 "reverse_kernel for 2-D kernels (detail::reverse_kernel_2d) is not part of the property and is not exercised"],
    tus=[tu("c15_p0", _SRC, "asan", extra=["-DC15_PART=0"], deps=_DEPS),
         tu("c15_p1", _SRC, "asan", extra=["-DC15_PART=1"], deps=_DEPS),
         tu("c15_p2", _SRC, "asan", extra=NONULL + ["-DC15_PART=2"], deps=_DEPS),
         tu("c15_p3", _SRC, "asan", extra=["-DC15_PART=3"], deps=_DEPS)]
        # mixed channel orders (1-D: parts 4..8, convolve_2d: part 9)
        + [tu("c15_p%d" % k, _SRC, "asan", extra=NONULL + ["-DC15_PART=%d" % k], deps=_DEPS) for k in range(4, 10)]
        # accumulator type == pixel type, out of place and in place (source view == destination view): parts 10..13
        + [tu("c15_p%d" % k, _SRC, "asan", extra=["-DC15_PART=%d" % k], deps=_DEPS) for k in range(10, 14)],
    runs=[run("c15_p0", shards=5, min_cases={"quick": 2000, "thorough": 4700}),
          run("c15_p1", shards=5, min_cases={"quick": 2000, "thorough": 4700}),
          run("c15_p2", shards=6, min_cases={"quick": 2800, "thorough": 6300}),
          run("c15_p3", shards=5, min_cases={"quick": 2000, "thorough": 4700})]
         + [run("c15_p%d" % k, shards=4, min_cases={"quick": 2000, "thorough": 4700}) for k in range(4, 9)]
         + [run("c15_p9", shards=4, min_cases={"quick": 294, "thorough": 600})]
         + [run("c15_p%d" % k, shards=6, min_cases={"quick": 4000, "thorough": 9400}) for k in range(10, 14)],
    require_obs=["correlate_rows.extend_padded.narrow", "convolve_cols_fixed.output_ignore.wide",
                 "correlate_cols.extend_constant.k1", "convolve_rows.output_zero.narrow"],
)
