from props import tu, run, FCO, NONULL

SRC = "harness/c04_pixel_algorithms.cpp"
DEPS = ["harness/c04_kinds.hpp"]
# (family, number of source parts) -- harness/c04_pixel_algorithms.cpp, "families"
FAMS = [(0, 12), (1, 4), (2, 2), (3, 6), (4, 5), (5, 6), (6, 5), (7, 4), (8, 6), (9, 6), (100, 3)]
PARTS = [(f, p) for f, n in FAMS for p in range(n)]
# cases per binary (one per (source variant, destination variant) + one per single-view variant); same in both tiers
CASES = {
    (0, 0): 116, (0, 1): 145, (0, 2): 87, (0, 3): 116, (0, 4): 145, (0, 5): 87, (0, 6): 116, (0, 7): 116, (0, 8): 116,
    (0, 9): 145, (0, 10): 116, (0, 11): 116,
    (1, 0): 56, (1, 1): 56, (1, 2): 70, (1, 3): 56,
    (2, 0): 36, (2, 1): 36,
    (3, 0): 128, (3, 1): 160, (3, 2): 352, (3, 3): 352, (3, 4): 128, (3, 5): 96,
    (4, 0): 264, (4, 1): 120, (4, 2): 72, (4, 3): 96, (4, 4): 264,
    (5, 0): 352, (5, 1): 160, (5, 2): 352, (5, 3): 128, (5, 4): 96, (5, 5): 352,
    (6, 0): 136, (6, 1): 170, (6, 2): 308, (6, 3): 140, (6, 4): 140,
    (7, 0): 56, (7, 1): 56, (7, 2): 70, (7, 3): 56,
    (8, 0): 72, (8, 1): 72, (8, 2): 90, (8, 3): 72, (8, 4): 72, (8, 5): 54,
    (9, 0): 68, (9, 1): 68, (9, 2): 85, (9, 3): 51, (9, 4): 68, (9, 5): 85,
    (100, 0): 96, (100, 1): 64, (100, 2): 80,
}


def name(kind, f, p):
    return "c04_%s_f%dp%d" % (kind, f, p)


def flags(f, p):
    return ["-DFAM=%d" % f, "-DPART=%d" % p]


CFG = dict(
    level="exploration",
    level_text=("Runs the real copy_pixels, copy_and_convert_pixels (compatible and converting), fill_pixels, equal_pixels, "
                "for_each_pixel(_position), generate_pixels, transform_pixels and transform_pixel_positions (1 and 2 sources) and image "
                "==/!= on every ordered pair of 54 view types x their run-time variants (contiguous, padded rows, interior sub-view, "
                "flipped up-down / left-right, x-stepped by 1 and 2, xy-stepped, rotated 90/180, transposed, rgb<->bgr twins, planar, "
                "packed 565/123/gray1, bit-aligned 565/123/gray1 with bit strides that are not byte multiples and sub-views starting at "
                "every bit offset, const views, color_converted_view sources) inside ten families of compatible pixels (2-, 3-, 4- and 5-channel planar kinds), for every shape "
                "w,h in 0..N plus long/narrow shapes. Each algorithm writes into arena A, the obvious `for y for x` loop into the "
                "byte-identical twin arena B; A and B are compared whole, every bit of A outside the destination pixels' own bits "
                "(identity mask from the view, not from the loop) must keep its value, and the source arenas must not change. "
                "equal_pixels / image == are asked about the copy, about a single flipped channel bit at every position, and about "
                "arenas/allocations whose every non-pixel bit is inverted. Functors record the identity and value of every argument "
                "(row-major, once per pixel) and return call-index-dependent results. The bounded domain is enumerated completely under "
                "ASan+UBSan (exact-size arenas => red zones) and, in the thorough tier, again in an optimised native build."),
    level_note=("trusts the harness's reference loop (GIL's own per-pixel reference assignment, the subject of C05/C08) and the channel "
                "identity extraction of pixtools.hpp; dispatch-path classes are derived from the view types + is_1d_traversable(), the "
                "memcmp fast path is observed directly through the sanitizer's memcmp hook; memmove has no hook"),
    technique="differential run-time check of the real algorithms against the per-pixel loop on twin byte arenas; pixel-identity masks; recording functors; ASan+UBSan; require_obs on dispatch paths",
    rule=("one case per (source kind/variant, destination kind/variant) pair, one per (kind/variant) for the single-view algorithms, one "
          "per (image type pair, alignment pair); every shape of the tier runs inside each case. evaluations = arena bytes compared + "
          "functor arguments checked + equal_pixels verdicts; distinct_nontrivial = distinct (variant pair, shape, algorithm) "
          "combinations, distinct by construction of the enumeration (the extra random-content passes of the native build and the native "
          "re-run are not counted again); empty shapes are included: they check that nothing is touched."),
    exhaustive={"quick": True, "thorough": True},
    exhaustive_domain={"quick": "all ordered kind pairs of each family x all variant pairs x shapes w,h in 0..6 + (17,5),(5,17),(33,2); single differing pixel at every position; pixel contents and the differing bit are seeded",
                       "thorough": "the same pairs x shapes w,h in 0..9 + (17,5),(5,17),(33,2),(64,3),(3,40),(31,9), ASan build (one content pass) + native -O2 build (three content passes)"},
    types=["rgb8: interleaved ptr (+const), x-step, transposed; planar (+const), planar x-step, planar transposed; bgr8 ptr, bgr8 step; color_converted_view<rgb8>(gray16 ptr | rgb16 planar)",
           "rgb16: interleaved, planar (+const), planar step", "rgb32f: interleaved, planar",
           "rgb565: packed_pixel<uint16> ptr (+const), step; bit_aligned rgb565, bgr565, transposed",
           "gray1: bit_aligned (+const), step, transposed; packed_pixel<uint8,1 bit>",
           "rgb123: bit_aligned rgb123 (+const), step, transposed, bgr321 twin; packed_pixel<uint8,1-2-3>",
           "converting: rgb8 ptr | rgb8 planar step | ba rgb123 | packed565 | gray8  ->  gray8 | rgb16 planar | packed565 | ba gray1 | rgb8 step | ba rgb123",
           "dev2x8 (devicen<2>): interleaved, planar (+const), planar step; rgba8: interleaved, planar (+const), planar step, planar transposed, bgra8 twin; dev5x8 (devicen<5>): interleaved, interleaved step, planar (+const), planar step, planar transposed",
           "caller-supplied objects with run-time state: colour converter (copy_and_convert_pixels(src,dst,cc), color_converted_view(src,cc) as a source kind), transform / for_each functors (salt), generator (seed)",
           "image ==: rgb8 il/planar, bgr8, rgb16 il/planar, packed565, ba rgb565, ba gray1, ba rgb123, dev5x8 il/planar, rgba8 planar, bgra8, dev2x8 planar with alignments {0,1,4,16}"],
    assumptions=["the unused bits of a packed_pixel's bit field belong to the pixel (assigning a packed pixel copies the bit field); a difference between A and B confined to such bits is recorded as an observation, not a violation",
                 "second source of the 2-source transforms is of the destination's kind",
                 "the reference loop reads memory-based sources through view(x,y) (locator arithmetic, not the iterator dereference the algorithms use) and converting sources by converting the underlying pixel with the harness's own converter object",
                 "planar kinds use 2, 3, 4 or 5 planes inside one arena, built from a hand-made planar_pixel_iterator",
                 "equal dimensions for all binary algorithms (the API's precondition); BOOST_ASSERTs are off (NDEBUG)",
                 "float channels: +0.0f vs -0.0f is the only non-bitwise-equal pair tried; NaN is outside the channel range",
                 "ASan build is -O0 (compile time); optimised code is exercised by the native -O2 build in the thorough tier only"],
    tus=[tu(name("asan", f, p), SRC, "asan", extra=NONULL + ["-O0"] + flags(f, p), deps=DEPS) for f, p in PARTS]
        + [tu(name("native", f, p), SRC, "native", extra=flags(f, p), deps=DEPS, tiers=("thorough",)) for f, p in PARTS],
    runs=[run(name("asan", f, p), shards={"quick": 2, "thorough": 4}, min_cases={"quick": CASES[(f, p)], "thorough": CASES[(f, p)]}) for f, p in PARTS]
        + [run(name("native", f, p), shards=2, args={"thorough": ["--rounds", "3"]}, min_cases={"quick": CASES[(f, p)], "thorough": CASES[(f, p)]}, secondary=True, tiers=("thorough",)) for f, p in PARTS],
    require_obs=[
        # interleaved pointer fast paths: one memmove / one per row; const and mutable std::copy overloads
        "copy.rgb8-ptr>rgb8-ptr.s1d1", "copy.rgb8-ptr>rgb8-ptr.s0d0", "copy.rgb8-ptr>rgb8-ptr.s1d0", "copy.rgb8-ptr>rgb8-ptr.s0d1",
        "copy.rgb8-ptr-const>rgb8-ptr.s1d1", "copy.rgb16-ptr>rgb16-ptr.s1d1",
        # planar: per-plane copy
        "copy.rgb8-planar>rgb8-planar.s1d1", "copy.rgb8-planar>rgb8-planar.s0d0", "copy.rgb16-planar-const>rgb16-planar.s1d1",
        # generic element-wise paths, step iterators that are 1-D traversable, layout twins, converted sources
        "copy.rgb8-ptr-step>rgb8-ptr.s1d1", "copy.rgb8-ptr>rgb8-planar-step.s1d0", "copy.bgr8-ptr>rgb8-ptr.s1d1", "copy.rgb8-planar>rgb8-ptr-transp.s1d0",
        "copy.cc-rgb8(gray16-ptr)>rgb8-ptr.s1d1", "copy.ccs-rgb8(rgb16-planar)>rgb8-planar.s0d0",
        # memcmp fast paths seen by the sanitizer's memcmp hook; the generic path for const-vs-mutable
        "equal.rgb8-ptr>rgb8-ptr.s1d1.memcmp", "equal.rgb8-ptr>rgb8-ptr.s0d0.memcmp", "equal.rgb8-ptr>rgb8-ptr.s1d0.memcmp",
        "equal.rgb8-planar>rgb8-planar.s1d1.memcmp", "equal.rgb16-planar>rgb16-planar.s0d0.memcmp", "equal.rgb16-planar>rgb16-planar.s1d1.memcmp",
        "equal.rgb8-ptr-const>rgb8-ptr.s1d1", "equal.rgb8-planar>rgb8-ptr.s1d1", "equal.ba-gray1>ba-gray1.s1d1", "equal.ba-gray1>packed-gray1-ptr.s0d1",
        "image-eq.rgb8>rgb8.memcmp", "image-eq.rgb8-planar>rgb8-planar.memcmp", "image-eq.rgb16-planar>rgb16-planar.memcmp",
        "image-eq.rgb8>rgb8.s0d1", "image-eq.packed565>ba-rgb565.s1d1", "image-eq.ba-gray1>ba-gray1.s0d0",
        # fill: per-plane, stepped planar (F23), bit-aligned
        "fill.rgb8-ptr.d1", "fill.rgb8-ptr.d0", "fill.rgb8-planar.d1", "fill.rgb8-planar.d0", "fill.rgb8-planar-step.d1", "fill.rgb8-planar-step.d0",
        "fill.ba-gray1.d1", "fill.ba-gray1.d0", "fill.ba-rgb123-step.d0", "fill.packed565-ptr.d1",
        # bit-aligned and packed
        "copy.ba-gray1>ba-gray1.s1d1", "copy.ba-gray1>ba-gray1.s0d0", "copy.ba-rgb123>ba-bgr321.s1d1", "copy.packed565-ptr>ba-rgb565.s1d0",
        "copy.ba-gray1-transp>ba-gray1-step.s0d0", "copy.packed-rgb123-ptr>ba-rgb123.s1d1",
        # converting
        "copy_and_convert.rgb8-ptr>gray8-ptr.s1d1", "copy_and_convert.ba-rgb123>rgb16-planar.s0d0", "copy_and_convert.packed565-ptr>ba-gray1.s1d1",
        "copy_and_convert.gray8-ptr>rgb8-ptr-step.s1d0",
        # 2-, 4- and 5-channel planar kinds (each colour-base arity has its own iterator dereference)
        "copy.dev5x8-planar>dev5x8-ptr.s1d1", "copy.dev5x8-ptr>dev5x8-planar.s0d0", "copy.dev5x8-planar>dev5x8-planar.s1d1", "copy.dev5x8-planar-step>dev5x8-ptr.s0d1",
        "equal.dev5x8-planar>dev5x8-ptr.s1d1", "equal.dev5x8-planar>dev5x8-planar.s1d1.memcmp", "fill.dev5x8-planar.d1", "fill.dev5x8-planar-step.d0",
        "for_each.dev5x8-planar.d1", "for_each.dev5x8-planar.d0", "generate.dev5x8-planar.d1", "transform1.dev5x8-planar>dev5x8-ptr.s1d1", "transform_pos1.dev5x8-planar-transp>dev5x8-planar.s0d1",
        "copy.rgba8-planar>rgba8-ptr.s1d1", "copy.bgra8-ptr>rgba8-planar.s1d0", "equal.rgba8-planar>bgra8-ptr.s1d1", "for_each.rgba8-planar.d1", "generate.rgba8-planar-step.d0",
        "copy.dev2x8-planar>dev2x8-ptr.s1d1", "equal.dev2x8-planar>dev2x8-planar.s0d0.memcmp", "for_each.dev2x8-planar.d0", "fill.dev2x8-planar-step.d1",
        "image-eq.dev5x8-planar>dev5x8-planar.memcmp", "image-eq.dev5x8-planar>dev5x8.s1d1", "image-eq.bgra8>rgba8-planar.s0d0", "image-eq.dev2x8-planar>dev2x8-planar.s1d0",
        # caller-supplied stateful converter: converting branch and the compatible (plain copy) branch; stateful converted-view source
        "copy_and_convert_cc.rgb8-ptr>gray8-ptr.s1d1", "copy_and_convert_cc.ba-rgb123>rgb16-planar.s0d0", "copy_and_convert_cc.gray8-ptr>rgb8-ptr-step.s1d0", "copy_and_convert_cc.rgb8-ptr>rgb8-ptr.s1d1",
        "copy.ccs-rgb8(rgb16-planar)>rgb8-ptr.s1d1", "equal.ccs-rgb8(rgb16-planar)>rgb8-planar.s0d1", "transform1.ccs-rgb8(rgb16-planar)>rgb8-ptr-step.s1d0", "for_each.ccs-rgb8(rgb16-planar).d1",
        # functor algorithms
        "transform1.rgb8-ptr>rgb8-planar.s1d1", "transform2.rgb8-planar-step>rgb8-ptr.s0d0", "transform_pos1.ba-gray1>ba-gray1.s1d1", "transform_pos2.rgb16-planar>rgb16-ptr.s1d1",
        "for_each.rgb8-ptr.d1", "for_each.rgb8-ptr.d0", "for_each.rgb8-ptr-const.d1", "for_each_pos.cc-rgb8(gray16-ptr).d0", "generate.rgb8-planar.d1", "generate.ba-rgb123.d0",
    ],
)
