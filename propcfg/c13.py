from props import tu, run

IOLIBS = ["-lpng", "-ljpeg", "-ltiffxx", "-ltiff", "-lz"]
FSLIBS = ["-lboost_filesystem", "-lboost_system"]   # detail::filesystem::path is boost::filesystem::path in C++14 mode
SRC = "harness/c13_io_read_agree.cpp"
DEPS = ["harness/c12_io_common.hpp"]

# PART -> (name, shards, floor of cases)
PARTS = [(0, "bmp", 8, 900), (1, "pnm", 8, 900), (2, "targa", 8, 500), (3, "png8", 6, 700), (4, "jpeg", 4, 500),
         (5, "tiff_gray8_rgb8", 6, 1000), (6, "tiff_rgba8_gray16", 6, 1000), (7, "png16", 6, 500),
         (8, "tiff_rgb16_gray32f", 6, 1000), (9, "tiff_gray1_gray4", 6, 1000), (10, "png_bits", 6, 500)]
PROBES = [(0, "make_scanline_reader.istream"), (1, "make_scanline_reader.FILEptr"), (2, "control.make_scanline_reader.filename"),
          (3, "make_scanline_reader.filesystem-path"), (6, "control.read_image.wstring")]

CFG = dict(
    level="exploration",
    level_text=("Reads every file of a corpus (repository fixtures of all six formats, files written by GIL's own writers in "
                "every native pixel type incl. strip/tiled/compressed TIFF, and variants crafted by the harness: top-down BMP, "
                "ASCII PNM, padded binary PBM, interlaced and palette PNG) through every reading path of the real library under "
                "ASan+UBSan and compares the results with the full read_image in the file's native type: every sub-rectangle "
                "of images up to 8x8 and edge+seeded rectangles of larger ones (16 rectangle classes), read_and_convert_image "
                "into 5 pixel types against pixelwise color_convert, scanline reader rows under five access patterns of the "
                "iterator (dereference every row; increment k times without dereferencing then dereference; dereference, skip, "
                "dereference; std::advance; every 2nd/3rd row and each row twice -- every row obtained must equal that row of read_image), read_view into a view inside a "
                "seeded arena (outside must stay untouched), any_image, FILE* / file name / std::istream devices, "
                "read_image_info dimensions, too-small destination views (must throw, arena untouched). Delivery independence: "
                "ten entry points (read_image, sub-rectangle, read_view, read_and_convert_image/view, read_image_info, any_image, "
                "scanline reader over an istream device with and without skipped rows) through eight kinds of input stream "
                "(get area refilled 1/2/7/64/4096/seeded bytes at a time, std::ifstream on a scratch file, std::stringstream "
                "filled by write; files from 60 bytes to 760 KB) must give what the same entry point gives through a one-piece "
                "std::istringstream. Names: every (name type, argument kind, entry point) combination that compiles -- char const*, "
                "std::string, std::wstring, filesystem::path, FILE*, std::istream&, TIFF* x {format tag, default settings, "
                "sub-rectangle settings, sub-rectangle + format option} x {read_image, read_view, read_and_convert_image/view, "
                "read_image_info, any_image, make_reader, make_scanline_reader} -- must give what the same call gives on a "
                "one-piece istringstream, which in turn must have exactly the requested region. Converting reads of a "
                "sub-rectangle (image and view, 5 destination types) must equal that rectangle of the converting full read. Observation of "
                "bounded executions: other files, rectangles and destination types are not covered."),
    level_note=("the reference is GIL's own full read (agreement, not decode correctness, is the property); trusts the harness's "
                "pixel comparison (self-tested at start-up) and g++ 12/ASan; system libpng/libjpeg/libtiff"),
    technique="differential execution of all reading paths of the real code against its own full read, under ASan+UBSan, with arena diff",
    rule=("one case per (file, path) and, for sub-rectangles, per (file, rectangle class); evaluations = reads compared "
          "(one per rectangle / destination type / device / view); distinct_nontrivial = (file, rectangle) pairs, (file, "
          "destination type), (file, device), (file, arena placement) -- distinct by construction; every one reads >= 1 pixel."),
    exhaustive={"quick": False, "thorough": False},
    exhaustive_domain={"quick": "all sub-rectangles of the <=8x8 files (6 sizes per native type and format); edge values + 2 seeded per axis class for the larger files (fixtures, 33x17, 18x9)",
                       "thorough": "all sub-rectangles of the <=8x8 files (14 sizes per native type and format); edge values + 10 seeded per axis class for the larger files (fixtures incl. the 1000x600 ones, 8 generated sizes)"},
    types=["bmp: rgb8 rgba8 (palette 1/4/8 bit, RLE4/8, OS/2, 555/565 bitfields, 24, 32, top-down)",
           "pnm: gray8 rgb8 gray1 (P1-P6)", "targa: rgb8 rgba8 (raw/RLE x both origins)",
           "png: gray1 gray2 gray4 gray8 gray16 rgb8 rgb16 rgba8 rgba16 (palette, tRNS, Adam7)", "jpeg: gray8 rgb8 cmyk8",
           "tiff: gray1 gray4 gray8 gray16 gray32f rgb8 rgb16 rgba8 (strip/tile x none/lzw/packbits/deflate)",
           "conversion targets: gray8 rgb8 rgba8 rgb16 gray32f"],
    assumptions=["agreement between paths is checked, not decode correctness",
                 "read_image_info: dimensions only (its depth fields describe the stored samples, e.g. 8 for a palette file that read_image delivers as rgba8)",
                 "the scanline reader is obtained through the file-name factory: make_scanline_reader(Device&, tag) does not compile (probe)",
                 "scanline variants the readers document as unsupported (RLE BMP, RLE / upper-left-origin TARGA, interlaced PNG, tiled TIFF) are reported under scanline-unsupported.* keys",
                 "PNG gray+alpha (and gray+tRNS fixtures) need BOOST_GIL_IO_ENABLE_GRAY_ALPHA and are not claimed",
                 "TIFF has no FILE* device"],
    tus=[tu("c13_p%d" % k, SRC, "asan", extra=["-DC13_PART=%d" % k], libs=IOLIBS, deps=DEPS) for k, _, _, _ in PARTS]
        + [tu("c13_probe%d" % k, "harness/c13_probe.cpp", "asan", extra=["-DC13_PROBE=%d" % k], probe=name) for k, name in PROBES]
        + [tu("c13_n%d" % k, "harness/c13_io_names.cpp", "asan", extra=["-DC13N_PART=%d" % k], libs=IOLIBS + FSLIBS, deps=DEPS) for k in range(6)],
    runs=[run("c13_p%d" % k, shards=sh, min_cases={"quick": fl, "thorough": fl}, max_restarts=400) for k, _, sh, fl in PARTS]
         + [run("c13_n%d" % k, shards=4, min_cases={"quick": 400, "thorough": 400}, max_restarts=400) for k in range(6)],
    require_obs=["names.char-const-ptr", "names.std-string", "names.std-wstring", "names.filesystem-path", "names.FILEptr", "names.istream", "names.TIFFptr",
                 "names.arg.tag", "names.arg.default-settings", "names.arg.subrect-settings", "names.arg.subrect+option-settings",
                 "names.ok.read_image.subrect-settings", "names.ok.read_view.subrect-settings", "names.ok.read_and_convert_image.subrect-settings", "names.ok.read_and_convert_view.subrect-settings",
                 "names.ok.read_image_info.subrect-settings", "names.ok.any_image.subrect-settings", "names.ok.make_reader.subrect-settings", "names.ok.make_scanline_reader.tag", "convert.subrect",
                 "path.subrect", "path.convert", "path.scanline", "path.readview", "path.anyimage", "path.devices", "path.info",
                 "path.toosmall", "toosmall.rejected", "stream.frag1", "stream.frag2", "stream.frag7", "stream.frag64", "stream.frag4096", "stream.frag-seeded", "stream.ifstream", "stream.stringstream-written", "stream.file-over-8KB", "stream.file-over-16KB", "stream.file-over-64KB", "stream.entry-ok.read_image", "stream.entry-ok.read_view", "stream.entry-ok.read_and_convert_image-rgb8", "stream.entry-ok.read_and_convert_view-rgb8", "stream.entry-ok.read_image_info", "stream.entry-ok.any_image", "stream.entry-ok.scanline", "stream.entry-ok.scanline-skip", "scanline.skip-then-deref", "scanline.deref-skip-deref", "scanline.advance", "scanline.alternate", "device.FILEptr", "device.filename", "rect.xoff-shortw-yoff-shorth",
                 "rect.x0-fullw-y0-fullh", "variant.rle8", "variant.interlaced-rgb8", "variant.P1-ascii-mono", "variant.rle32-ul-origin"],
)
