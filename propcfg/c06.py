from props import tu, run, FCO, NONULL

CFG = dict(
    level="exploration",
    level_text=("Runs the real channel_convert on every value of every <=16-bit/packed source model (complete) and on "
                "stratified 32-bit/float values for all 625 ordered model pairs, natively and under ASan+UBSan "
                "(+float-cast-overflow), and compares each result with the exact rational rescaling: end points, range, "
                "monotonicity, <1 unit error, round trip, identity. Exhaustive enumeration of the bounded domains is as "
                "strong as run-time observation gets for a pure function; 32-bit/float domains remain sampled."),
    level_note="trusts the harness's __int128/long double oracle and g++ 12; instantiates only the listed channel models",
    technique="exhaustive/stratified value sweep of the real function against an exact-arithmetic oracle, native + ASan/UBSan",
    rule=("one case per ordered pair (S,D) of 25 channel models (u8,s8,u16,s16,u32,s32,float32, "
          "packed_channel_value<1..16,24,31>) plus packed (dynamic) channel references as sources; every "
          "source value of S is enumerated (complete for <=16-bit and packed<=16; stratified for 32-bit, "
          "packed 24/31 and float). evaluations = channel_convert results checked; distinct_nontrivial = "
          "distinct (S,D,value) triples, distinct by construction of the sorted, de-duplicated enumeration; "
          "every triple is non-trivial (it is compared with the exact rational rescaling)."),
    exhaustive={"quick": False, "thorough": False},
    exhaustive_domain={"quick": "complete for every pair whose source has <=16 bits; 32-bit/float sources stratified",
                       "thorough": "complete for every pair whose source has <=16 bits; 32-bit/float sources stratified (2^20 seeded + lattices)"},
    types=["uint8_t", "int8_t", "uint16_t", "int16_t", "uint32_t", "int32_t", "float32_t",
           "packed_channel_value<N> N=1..16,24,31", "packed_channel_reference<u8|u16|u32,...>",
           "packed_dynamic_channel_reference<u8|u16|u32,...>"],
    assumptions=["exact oracle computed in __int128 / long double",
                 "32-bit, packed<24>, packed<31> and float sources are sampled (ends, powers of two, lattice, seeded), not complete",
                 "tolerance: < 1 destination unit, plus range*2^-23 when a 32-bit or float channel is involved (the property's wording)"],
    tus=[tu("c06_native%d" % k, "harness/c06_channel_convert.cpp", "native", extra=["-DC06_PART=%d" % k]) for k in range(5)]
        + [tu("c06_asan%d" % k, "harness/c06_channel_convert.cpp", "asan", extra=FCO + ["-DC06_PART=%d" % k]) for k in range(5)],
    runs=[run("c06_native%d" % k, shards=4, min_cases={"quick": 125, "thorough": 125}) for k in range(5)]
        + [run("c06_asan%d" % k, shards=8, min_cases={"quick": 125, "thorough": 125}, secondary=True) for k in range(5)],
)
