from props import tu, run, FCO, NONULL

_SRC = "harness/c09_color_convert.cpp"
_DEPS = ["harness/c09_cube.hpp"]
_VALUE_PARTS = list(range(1, 9))      # three source pixel types each x 24 destinations = 72 pairs
_VIEW_PARTS = list(range(11, 19))     # three source pixel types each x 8 destinations (Latin depth pattern) = 24 pairs
# sweeps: 5 x 16 slabs + cmyk8 (2) + gray, rgb16, rgb32f, rgb565 (4)
_SWEEP_CASES = 86
# conversions into heterogeneous-depth destinations (harness/c09_hetero.cpp): part 0 packed rgb565/bgr565/rgb332, rgba5551,
# packed sources -> gray/rgb8/rgba8, views into packed images; part 1 packed bgr332, bit-aligned rgb565/rgb232/rgba5551
_HSRC = "harness/c09_hetero.cpp"
_HETERO_CASES = {0: 53, 1: 44}

CFG = dict(
    level="exploration",
    level_text=("Runs the real color_convert on all 2^24 rgb8 pixels (-> gray8: greys exact, monotone against the +1 "
                "neighbours, within one unit of the weights; -> cmyk8 -> rgb8 within one level; -> rgba: alpha = max), on "
                "all rgba8 (r,a) planes over a (g,b) grid (premultiplication), on the cmyk8 axes/planes and 2^20 seeded "
                "pixels (documented formula), on all gray8/gray16 and rgb565 values, natively and under ASan+UBSan with "
                "float-cast-overflow armed; and on every ordered pair of 24 pixel types ({gray,rgb,bgr,rgba,bgra,argb,abgr,"
                "cmyk} x {8,16,32f}) checks range, layout independence, the relation the property states for the two "
                "colour spaces, and, for every ordered pair of colour space and layout, color_converted_view / copy_and_convert_pixels against color_convert pixel by pixel. "
                "Complete for the 8-bit domains the property names; 16-bit and float pixels are sampled, so the verdict "
                "for them is that of a stratified test."),
    level_note=("exhaustive over rgb8, the rgba8 (r,a) planes, gray8/16 and rgb565 only; 16-bit/float sampled; the premultiply "
                "and same-space oracles use the library's own channel_multiply / channel_convert (decided by C07 / C06)"),
    technique="exhaustive/stratified value sweeps of the real converters against exact-arithmetic and metamorphic oracles, native + ASan/UBSan(+float-cast-overflow)",
    rule=("sweeps: one case per target x slab of 16 red values; every pixel of the slab is converted and checked. pairs: one "
          "case per ordered pair (S,D) of the 24 pixel types with {lo,mid,hi}^n, neutral ramps, axes and seeded pixels, "
          "de-duplicated by content. views: one case per ordered pair on a seeded 9x5 image. evaluations = conversion "
          "results compared; distinct_nontrivial = distinct (conversion, source pixel) combinations of the native sweep "
          "(distinct by construction of the nested enumeration; the sanitizer repeat is not counted again) plus the "
          "de-duplicated source pixels of each pair plus one hashed image per view pair; all non-trivial: each is "
          "compared with an exact or metamorphic expectation."),
    exhaustive={"quick": True, "thorough": True},
    exhaustive_domain={"quick": "all 2^24 rgb8 pixels (-> gray8, -> cmyk8 -> rgb8, -> rgba8), all rgba8 (r,a) x 16^2 (g,b), all gray8/gray16/rgb565 values in the native build; sanitizer build: stratified subset of the cube; 16-bit/float and the 576 type pairs: sampled",
                       "thorough": "as quick, and the sanitizer build also sweeps the whole rgb8 cube; 16-bit/float and the 576 type pairs: sampled (20000 pixels per pair)"},
    types=["gray8/16/32f", "rgb8/16/32f", "bgr8/16/32f", "rgba8/16/32f", "bgra8/16/32f", "argb8/16/32f", "abgr8/16/32f",
           "cmyk8/16/32f", "rgb565/bgr565 packed pixels", "interleaved, planar, stepped image views",
           "heterogeneous-depth destinations: packed_pixel rgb565, bgr565, rgb332, bgr332, rgba5551; bit_aligned_image3_type<5,6,5>, <2,3,2>, bit_aligned_image4_type<5,5,5,1> (through the view's reference) and images of them"],
    assumptions=["gray <-> cmyk: only range and layout independence are required (the property states neutrals between rgb, opaque rgba and cmyk only)",
                 "rgb -> gray across depths: one unit of the coarser of the two depths; float: 1e-6",
                 "rgb -> cmyk -> rgb: one 8-bit level, as stated, for every depth; an error in (1, 1.5] levels is keyed roundtrip-over-one-level.<pair>, a larger one roundtrip.<pair>",
                 "cmyk -> rgb is also compared with the header's documented formula 1 - min(1, c(1-k)+k) within one unit of each depth involved",
                 "views: all 8x8 ordered pairs of (colour space, layout) with three of the nine depth combinations each in a Latin pattern = 192 of the 576 type pairs (interleaved source and destination); every fourth of them also through the view's iterator, a stepped and a planar source and a planar destination",
                 "into heterogeneous-depth destinations: gray8/16/32f, rgb8, bgr8, rgb16, rgb32f, rgba8, cmyk8, rgb565, rgb332 -> {rgb565, bgr565, rgb332, bgr332, bit-aligned rgb565, bit-aligned rgb232}; rgba8/rgba16/rgba5551 -> {rgba5551, bit-aligned rgba5551}; each destination channel against channel_convert into a packed_channel_value of that channel's bit count (hand-written table) and against the exact rescaling within one unit; gray/rgb/cmyk -> rgba5551 and rgba5551 -> gray/rgb/cmyk do not instantiate (channel_type of a heterogeneous pixel; color_convert.hpp: 'Supports homogeneous pixels only') and are not claimed",
                 "the pair and view TUs are compiled with -O0 instead of the profile's -O1 (compile time: copy_and_convert_pixels costs ~1 s per pair at -O1); the sweeps keep -O1 / -O2"],
    tus=[tu("c09_native0", _SRC, "native", extra=["-DC09_PART=0"], deps=_DEPS),
         tu("c09_asan0", _SRC, "asan", extra=FCO + ["-DC09_PART=0"], deps=_DEPS)]
        + [tu("c09_asan%d" % k, _SRC, "asan", extra=FCO + ["-O0", "-DC09_PART=%d" % k], deps=_DEPS) for k in _VALUE_PARTS]
        + [tu("c09_asan%d" % k, _SRC, "asan", extra=FCO + ["-O0", "-DC09_PART=%d" % k], deps=_DEPS) for k in _VIEW_PARTS]
        + [tu("c09_hetero_native%d" % k, _HSRC, "native", extra=["-DC09H_PART=%d" % k], deps=_DEPS) for k in (0, 1)]
        + [tu("c09_hetero_asan%d" % k, _HSRC, "asan", extra=FCO + ["-DC09H_PART=%d" % k], deps=_DEPS) for k in (0, 1)],
    runs=[run("c09_native0", shards=8, min_cases={"quick": _SWEEP_CASES, "thorough": _SWEEP_CASES}),
          run("c09_asan0", shards=8, min_cases={"quick": _SWEEP_CASES, "thorough": _SWEEP_CASES}, secondary=True)]
        + [run("c09_asan%d" % k, shards=2, min_cases={"quick": 72, "thorough": 72}) for k in _VALUE_PARTS]
        + [run("c09_asan%d" % k, shards=1, min_cases={"quick": 24, "thorough": 24}) for k in _VIEW_PARTS]
        + [run("c09_hetero_native%d" % k, shards=4, min_cases={"quick": _HETERO_CASES[k], "thorough": _HETERO_CASES[k]}) for k in (0, 1)]
        + [run("c09_hetero_asan%d" % k, shards=8, min_cases={"quick": _HETERO_CASES[k], "thorough": _HETERO_CASES[k]}, secondary=True) for k in (0, 1)],
    require_obs=["sweep.rgb8-gray8.full-slab", "sweep.rgb8-cmyk8-rgb8.full-slab", "view.extended", "view.basic", "view.cmyk->gray", "view.rgba->rgba", "view.gray->cmyk",
                 "pair.rgb->gray", "pair.rgba->cmyk", "pair.cmyk->rgba", "pair.gray->rgb",
                 "hetero.gray->rgb565", "hetero.gray->bitaligned-rgb232", "hetero.rgb->bgr332", "hetero.rgba->rgba5551", "hetero.cmyk->bitaligned-rgb565", "hetero-view"],
)
