from props import tu, run, FCO

_PARTS = 7

CFG = dict(
    level="exploration",
    level_text=("Runs the real sample(nearest_neighbor_sampler|bilinear_sampler) on every point of a fine grid over [-2,w+1]x[-2,h+1] "
                "(1/8 steps, 1/16 thorough; every integer; +-2^-20 around every integer and half-integer line) for every source "
                "shape 1..5^2 (1..7^2) of gray8, rgb8, gray16, gray32f with double and float coordinates, on tight heap images "
                "(ASan red zones) and on sub-views surrounded by extreme values, result pre-set to a sentinel: outside => "
                "untouched; inside => within the range of the in-image corners of the bilinear cell, within one unit (1e-5 for "
                "float) of the edge-clamped bilinear formula in long double, exact at integer coordinates; nearest == "
                "src(round p).  resample_pixels (10 map classes x 2 samplers, destination inside an arena) is compared with "
                "independent sample() calls at transform(map,(x,y)); resize_view to the same size must be the identity; "
                "matrix3x2<double> product/associativity/generators/inverse/round trip against hand formulas on seeded triples."),
    # matrix3x2<double|float>: every public way to build or compose a matrix (default/value/copy ctor, =, *, *= with chains,
    # aliasing A*=A, return value, rhs untouched; get_translate/get_scale/get_rotate in all overloads; transform(mat,p) and
    # p*mat for floating and integer points; inverse) is compared member by member with a long double 3x3 model
    level_note="source contents and affine maps are seeded; sample coordinates are a fixed fine grid, not all reals; float-cast-overflow armed",
    technique="grid sweep of the real samplers against hull/formula/sentinel oracles under ASan+UBSan(+float-cast-overflow); differential resample_pixels; algebraic identities",
    rule=("one case per (pixel type, coordinate type, source shape, tight|subview) for the samplers (all grid points inside the case), "
          "per (pixel type, source shape) for resample_pixels/resize_view, per batch of 1000 seeded matrix triples.  "
          "evaluations = sample() results judged + resample_pixels/resize_view runs compared + matrix triples; "
          "distinct_nontrivial = grid points x samplers x rounds + (map class, sampler) runs + triples, distinct by construction "
          "of the enumeration (contents are seeded per case)."),
    exhaustive={"quick": False, "thorough": False},
    exhaustive_domain={"quick": "all source shapes 1..5 x 1..5; every point of the 1/8 grid over [-2,w+1]x[-2,h+1] plus +-2^-20 around integer/half-integer lines",
                       "thorough": "all source shapes 1..7 x 1..7; 1/16 grid; 2 content rounds; 100000 matrix triples"},
    types=["gray8_pixel_t", "rgb8_pixel_t", "gray16_pixel_t", "gray32f_pixel_t", "point<double>", "point<float>",
           "nearest_neighbor_sampler", "bilinear_sampler", "matrix3x2<double>", "matrix3x2<float>",
           "wide channels (double coordinates): gray32_pixel_t (uint32), gray32s_pixel_t, rgb32_pixel_t, pixel<double,gray_layout_t>, pixel<double,rgb_layout_t>"],
    assumptions=["'surrounding pixels' = in-image corners of the cell [floor p, floor p + 1]; reporting 'outside' is accepted anywhere except inside [0,w-1]x[0,h-1]",
                 "tolerance: 1 unit for integral channels (the sampler truncates the weighted sum), 1e-5 for float32, 0 for double channels, plus 8 ulp of the coordinate type times the largest surrounding channel magnitude (4 weighted products + 3 additions of the documented formula, each rounded once); exact equality at integer coordinates for every type",
                 "wide channels (uint32, int32, double) hold values float cannot represent (2^24+1, 2^31-1, 2^31, 2^32-1, INT_MIN, 2^53-1, fractions) and are sampled with double coordinates only: with float coordinates the documented channel*weight product is itself a float",
                 "nearest neighbour on exact .5 ties: either neighbour (or 'outside' at the border) is accepted",
                 "resample_pixels is compared with sample() at GIL's own transform(map,p), which is itself compared with the hand formula to 1e-12 relative",
                 "inverse is judged only for |det| > 1e-3, tolerance 1e-9 x (1+max|m|)^2/|det|",
                 "any_image_view overloads of resample_pixels and resample_subimage with a rotation are not exercised"],
    tus=[tu("c17_asan%d" % k, "harness/c17_sampling.cpp", "asan", extra=FCO + ["-DC17_PART=%d" % k]) for k in range(_PARTS)],
    runs=[run("c17_asan%d" % k, shards=[5, 5, 5, 4, 6, 5, 4][k],
              min_cases={"quick": [100, 100, 100, 115, 150, 100, 75][k], "thorough": [196, 196, 196, 347, 294, 196, 147][k]}) for k in range(_PARTS)],
    require_obs=["bilinear.x-pre.y-pre.true", "bilinear.x-pre.y-in.true", "bilinear.x-pre.y-last.true",
                 "bilinear.x-in.y-pre.true", "bilinear.x-in.y-in.true", "bilinear.x-in.y-last.true",
                 "bilinear.x-last.y-pre.true", "bilinear.x-last.y-in.true", "bilinear.x-last.y-last.true",
                 "bilinear.x-before.*.false", "bilinear.x-after.*.false", "bilinear.*.y-before.false", "bilinear.*.y-after.false",
                 "resample.some-inside", "resample.all-inside", "matrix.inverse-checked",
                 "matrix-model.inverse-checked.double", "matrix-model.inverse-checked.float"],
)
