from props import tu, run, FCO, NONULL
from propcfg_names import ORG_NAMES

ORGS = list(range(27))
SRC = "harness/c01_storage_bounds.cpp"

CFG = dict(
    level="exploration",
    level_text=("For 25 pixel organisations (interleaved 8/16/32f, planar, packed, bit-aligned with 1..5-byte bit fields) an "
                "image is created through 12 paths (constructors with/without fill, copy, converting assignment, recreate "
                "grow/shrink/re-align/with fill, construct from view, move, swap) for widths/heights incl. 0 and 1 and all "
                "alignments {0,1,2,4,8,16,32}; every in-range pixel of the image view and of every word of transformations "
                "(flip/rotate/transpose/subimage/subsample up to depth 2-3, nth_channel) is read and written through every "
                "accessor (coordinates, x/y/1-D/reverse iterators, operator[], at, locators, cached locations) and every pixel "
                "algorithm (fill, copy both ways, equal, for_each, generate, transform). The executions are watched by (1) ASan "
                "red zones around the exact-size malloc block handed out by a ledger allocator, (2) a native build whose "
                "allocator places the block flush against a PROT_NONE page at the trailing and then at the leading end, and "
                "the ledger itself; views over caller-supplied buffers of exactly height x row-bytes get the same two guards."),
    level_note="detects accesses that leave the block by < 1 page (guard) / into the red zone (ASan); accesses that leave the view but stay in the block are legal for C01",
    technique="ASan+UBSan red zones and guard-paged allocations around real image/view accesses; exhaustive accessor x transformation workload",
    rule=("one case per (organisation, creation path, w, h, alignment) and per (organisation, raw buffer, w, h, guard side); "
          "evaluations = pixel accesses performed (reads+writes through some accessor or algorithm); distinct_nontrivial = distinct "
          "(case, derived view) pairs whose pixels were all touched, counted in the ASan run only (the guard-page runs repeat the "
          "same enumeration and are not counted again)."),
    exhaustive={"quick": False, "thorough": False},
    exhaustive_domain={"quick": "w,h in {0,1,2,3,5,8,9,16}, 7 alignments, 12 creation paths (all for <=25 pixels, rotating subset above), words to depth 2",
                       "thorough": "w,h in {0,1,2,3,4,5,7,8,9,15,16,17,31,33}, 7 alignments, all 12 creation paths, words to depth 3"},
    types=ORG_NAMES[:27],
    assumptions=["red zones/guard pages detect out-of-block accesses adjacent to either end; far accesses (> 1 page) are not detected by the guard build",
                 "only dereferences are judged; past-the-end pointers are formed and compared but never dereferenced"],
    tus=[tu("c01_asan%d" % k, SRC, "asan", extra=NONULL + ["-DORG=%d" % k]) for k in ORGS]
        + [tu("c01_native%d" % k, SRC, "native", extra=["-DORG=%d" % k]) for k in ORGS],
    runs=[run("c01_asan%d" % k, shards=2, min_cases={"quick": 700, "thorough": 3000}) for k in ORGS]
        + [run("c01_native%d" % k, shards=1, args={"quick": ["--backing", "1"], "thorough": ["--backing", "1"]},
               min_cases={"quick": 700, "thorough": 3000}, secondary=True) for k in ORGS],
)
# second guard orientation: same binaries, leading guard
CFG["runs"] += [dict(r, args={"quick": ["--backing", "2"], "thorough": ["--backing", "2"]}, logtag="lead") for r in CFG["runs"] if r["bin"].startswith("c01_native")]
