from props import tu, run, FCO, NONULL

CFG = dict(
    level="exploration",
    level_text=("Runs the real channel_multiply / channel_invert on every pair (a,b) of every 8-bit and packed<=8-bit model "
                "(and, in the thorough tier, on all 2^32 pairs of uint16_t and of int16_t and all pairs of packed 9..12) and on "
                "stratified grids plus seeded pairs of the wider models, natively and under ASan+UBSan(+float-cast-overflow), "
                "and compares each result with exact integer / long double arithmetic: |r-a*b/max|<=1, range, commutativity, "
                "monotonicity in both arguments, max identity, min annihilator; invert == max-x+min, involution. Complete "
                "enumeration is as strong as run-time observation gets for a pure function; 32-bit and float domains stay sampled."),
    level_note="trusts the harness's 64-bit/__int128/long double oracle and g++ 12; instantiates only the listed channel models",
    technique="exhaustive/stratified operand sweep of the real functions against an exact-arithmetic oracle, native + ASan/UBSan",
    rule=("multiply: one case per model (all-pairs models are split into row blocks); evaluations = channel_multiply / "
          "channel_invert calls whose result entered a comparison; distinct_nontrivial = distinct ordered operand pairs "
          "(a,b) per model (all pairs: by construction of the double loop; grids: sorted de-duplicated value sets; seeded "
          "pairs: image of the pair index under an odd-multiplier bijection of the pair space, minus pairs the grid already "
          "covered) plus distinct invert operands; every pair is non-trivial (compared with the exact scaled product and "
          "with its neighbours/transposed pair)."),
    exhaustive={"quick": False, "thorough": False},
    exhaustive_domain={"quick": "complete for all pairs of u8, s8, packed<1..8> and for every invert operand of <=16-bit/packed<=16 models; "
                                "16-bit: every a x ~130 boundary b + 2^22 seeded pairs; 32-bit/float stratified; plus, seed-independent, the pairs whose product is an exact multiple of max",
                       "thorough": "complete for all pairs of u8, s8, packed<1..12>, uint16_t (2^32), int16_t (2^32) and every invert "
                                   "operand of <=16-bit models; packed<13..16>, 32-bit, packed 24/31, float32/64 stratified (grid + 2^24 seeded pairs)"},
    types=["uint8_t", "int8_t", "uint16_t", "int16_t", "uint32_t", "int32_t", "float32_t", "float64_t",
           "packed_channel_value<N> N=1..16,24,31",
           "invert only: scoped_channel_value<uint8_t,16,235>, <uint16_t,4096,61439>, <int16_t,-1000,3000>, <float,1,2>, <double,-0.5,0.5>", "packed_channel_reference<u8|u16|u32,...> as arguments",
           "packed_dynamic_channel_reference<u8|u16|u32,...> as arguments"],
    assumptions=["exact oracle computed in 64-bit / __int128 integers, long double and fma residuals",
                 "signed models are judged after the documented shift x - min to the unsigned range (as the property states)",
                 "float tolerance: 2 ulp of the result for multiply; invert == 1-x as computed in the channel's own type, involution within epsilon",
                 "custom-range (scoped_channel_value) models are judged for channel_invert only; multiply's shift rule is documented for signed integers only",
                 "32-bit, packed<13..16,24,31> and float operands are sampled (ends, powers of two, lattice, seeded), not complete",
                 "the ASan build runs the quick-tier bounds in both tiers (all pairs only for <=8-bit models)"],
    tus=[tu("c07_native", "harness/c07_channel_multiply_invert.cpp", "native"),
         tu("c07_asan", "harness/c07_channel_multiply_invert.cpp", "asan", extra=FCO)],
    runs=[run("c07_native", shards=16, min_cases={"quick": 299, "thorough": 733}),
          run("c07_asan", shards=16, min_cases={"quick": 299, "thorough": 299}, secondary=True)],
    require_obs=["inv.video8", "inv.studio16", "inv.float12", "inv.doublehalf", "mul.all-pairs.u8", "mul.all-pairs.s8", "mul.all-pairs.p8", "mul.grid.f32", "inv.s16", "inv.f32", "ref.pdyn<u16,6>@7"],
)
