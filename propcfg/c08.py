from props import tu, run, FCO, NONULL

_PARTS = 18
# cases per part (same enumeration in both tiers): static refs u8 (36), u16 (58, 48), u32 (54), u64 (27), dynamic refs (38),
# bit-aligned pixels (56, 40), packed pixels (6), iterators (288); parts 3, 4, 5, 7 include the wide (20..32-bit) channels;
# parts 0-5: every channel model has a second case on exactly sized blocks (tight-chan); part 9: 11 iterator models x (32 + 8 tight-const + 1 const view);
# parts 10-12, 14: 5 (3) bit-aligned factory types each x (8 pixel + 41 iterator + 1 row case), part 13: 6 packed factory types
_CASES = [72, 62, 46, 108, 54, 76, 56, 40, 6, 246, 250, 250, 250, 6, 150, 54, 50, 205]
_SHARDS = [8, 16, 16, 8, 8, 16, 8, 16, 6, 8, 8, 8, 8, 6, 8, 16, 16, 8]

CFG = dict(
    level="exploration",
    level_text=("Runs the real packed_channel_reference / packed_dynamic_channel_reference / bit_aligned_pixel_reference / "
                "packed_pixel / bit_aligned_pixel_iterator code on bytes carved out of an arena of seeded garbage and compares the "
                "whole arena after every write with the image computed by the obvious bit loop: value read back, bits inside "
                "the target range, every bit outside it (other channels, neighbouring pixels, unused bits, slack bytes). "
                "16-bit fields are swept over all 2^16 contents x all values in the thorough tier; iterator arithmetic is "
                "enumerated over every start bit and every n in a window. Natively and under ASan+UBSan, including rows placed "
                "in heap blocks of exactly the needed size. This is observation of executions: widths/first bits/carriers "
                "outside the lists below and contents beyond the stated bounds are not covered."),
    level_note="trusts the harness's bit-loop oracle, a little-endian host and g++ 12; instantiates only the listed models",
    technique="differential byte-arena monitor: whole-buffer comparison against a bit-loop oracle after every operation, native + ASan/UBSan",
    rule=("one case per channel-reference model (BitField, First, Num) / per pixel model x start bit / per iterator model x start bit. "
          "evaluations = operations (assignments, swaps, arithmetic steps, fills, copies, iterator identities) whose complete "
          "effect on the arena was compared; distinct_nontrivial = distinct (model, first bit, byte offset, field content, value) "
          "tuples -- contents are enumerated completely or by an odd-stride walk (distinct by construction) for <=16-bit fields and "
          "drawn from a 64-bit generator otherwise; the ASan runs repeat a subset and are not counted again."),
    exhaustive={"quick": False, "thorough": False},
    exhaustive_domain={"quick": "8-bit fields: all 256 contents x all values; 16-bit fields: 4096 contents x all values (Num<=8); wider: seeded",
                       "thorough": "8- and 16-bit bit fields: all 2^8 / 2^16 contents x all values of every channel with Num<=8, every First, "
                                   "every run-time first bit 0..7; bit-aligned/packed pixels of <=16 bits: all contents x all channel values "
                                   "at every start bit; wider fields seeded; iterator n in [-200,200]"},
    types=["packed_channel_reference<u8|u16,First,Num> every First, Num=1..8,12,16",
           "packed_channel_reference<u32|u64,First,Num> selected First, Num=1..8,10,12,16",
           "packed_dynamic_channel_reference<u8|u16|u32|u64,Num> first bit 0..7, Num=1..9,10,12,16",
           "wide channels: packed_channel_reference<u32|u64,First,24|30>, packed_dynamic_channel_reference<u32,24>, <u64,20|30|32>, bit-aligned 30+30 in u64",
           "bit_aligned_pixel_reference: gray1 gray2 gray4 gray7 bgr121 rgb123 rgb444 rgb565 rgba2222 5x8(u64) rgb3.12.9",
           "packed_pixel: rgb565 bgr556 rgb555 gray3 rgba2222(u8) rgb10.10.10(u32)",
           "factory types: bit_aligned_image1_type<1..7,gray>, image3_type<1,2,1 bgr | 2,3,2 | 1,2,3 | 4,4,4 | 5,6,5>, image4_type<5,5,5,1>, "
           "image2_type<3,5>, image5_type<1,2,3,2,1> (view_t::reference, x_iterator, carrier as chosen by the factory); "
           "packed_image1_type<u8,3>, image2_type<u8,3,5>, image3_type<u16,5,6,5 | 5,5,5>, image4_type<u16,4,4,4,4 | u8,2,2,2,2>",
           "bit_aligned_pixel_iterator over gray1 gray2 gray4 gray7 bgr121 rgb123 rgb444 rgb565 5x8"],
    assumptions=["little-endian host: bit p of a BitField is bit p&7 of byte p>>3",
                 "channels fit their bit field (first bit + Num <= 8*sizeof(BitField)); bit-aligned pixels use a bit field of at least bit_size+7 bits, as bit_aligned_image_type chooses",
                 "arithmetic operands are small enough that get() op v does not overflow int (that would be the caller's overflow)",
                 "same-type packed_pixel assignment / swap is a plain object copy (whole bit field); unused bits are only required to survive channel writes and assignments from other pixel models",
                 "out-of-range reads are observed on blocks of exactly the needed size: exact heap allocations under ASan, a PROT_NONE page behind the block natively (end of block only); "
                 "mutable and const flavours (const_reference, const iterators, const views, packed_*channel_reference<...,false>) are read there for row lengths 1..9 (24 thorough) and every start bit",
                 "the ASan build runs reduced content counts; out-of-bounds accesses themselves belong to C01, here only rows in exact-size heap blocks are exercised"],
    tus=[tu("c08_native%d" % k, "harness/c08_packed_bits.cpp", "native", extra=["-DC08_PART=%d" % k]) for k in range(_PARTS)]
        + [tu("c08_asan%d" % k, "harness/c08_packed_bits.cpp", "asan", extra=["-DC08_PART=%d" % k]) for k in range(_PARTS)],
    runs=[run("c08_native%d" % k, shards=_SHARDS[k], min_cases={"quick": _CASES[k], "thorough": _CASES[k]}) for k in range(_PARTS)]
        + [run("c08_asan%d" % k, shards=_SHARDS[k], min_cases={"quick": _CASES[k], "thorough": _CASES[k]}, secondary=True) for k in range(_PARTS)],
    require_obs=["pref.8bit-field", "pref.16bit-field", "pref.32bit-field", "pref.64bit-field",
                 "pdyn.8bit-field", "pdyn.16bit-field", "pdyn.32bit-field", "pdyn.64bit-field",
                 "bitaligned.1bit", "bitaligned.16bit", "bitaligned.40bit", "packedpixel.16bit",
                 "iter.arith", "iter.fill", "iter.copy", "iter.tight",
                 "chan.tight", "iter.tight-const", "iter.tight-const-view", "factory.row", "factory.gray7.carrier.*", "factory.rgb232.carrier.*", "factory.rgb565.carrier.*", "factory.pk.rgb565.carrier.u16"],
)
