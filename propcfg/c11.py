from props import tu, run

IOLIBS = ["-lpng", "-ljpeg", "-ltiffxx", "-ltiff", "-lz"]
SRC = "harness/c11_io_fuzz.cpp"
DEPS = ["harness/c11_libformats.hpp"]
# std::istream-level call counters: once a std::istream is in eof/fail state it returns at its sentry
# without calling the streambuf, so GIL's istream_device spinning at EOF is only countable here
WRAP = ["-Wl,--wrap=" + s for s in ("getc", "fgetc", "fread", "fseek", "_ZNSi4peekEv", "_ZNSi3getEv", "_ZNSi8readsomeEPcl", "_ZNSi4readEPcl",
                                    "_ZNSi5seekgElSt12_Ios_Seekdir")]

# FMT -> (name, libs, floor quick, floor thorough)
# PNG (C11_FMT=3) could not be registered on the pinned tree: a truncated PNG never terminated inside libpng through *every*
# device (GIL's read callback ignored short reads) and flooded the log; registered since the fix: commit 7ce10e0.
FORMATS = [(0, "bmp", [], 16000, 16000), (1, "pnm", [], 6500, 6500), (2, "targa", [], 8000, 8000),
           (3, "png", IOLIBS, 7000, 7000), (4, "jpeg", IOLIBS, 4000, 4000), (5, "tiff", IOLIBS, 10000, 10000)]

CFG = dict(
    level="exploration",
    level_text=("Presents byte sequences to the real readers of all six I/O extensions under ASan+UBSan+_GLIBCXX_ASSERTIONS: "
                "every truncation length of small valid files (complete enumeration of the crash points of the byte stream) "
                "and head+strided truncations of larger ones, every header field x a boundary-value table, targeted palette / "
                "run-length / offset / dimension corruptions, seeded random multi-byte mutations; each input goes through "
                "read_image_info, read_image (every native type, also a sub-rectangle), read_view and read_and_convert_view "
                "into a view inside a seeded arena, read_and_convert_image, scanline_read_iterator and any_image, via an "
                "instrumented FILE* (fopencookie), a real file name and an instrumented std::istream. Observed per call: "
                "outcome class, sanitizer/assertion/signal (fatal), bytes outside the destination view, a logical step budget "
                "on the devices (no clocks), and an in-process differential of two runs with different stack and heap "
                "pre-fill (uninitialised data reaching the outcome). Fault enumeration over truncation points is complete "
                "for the small seeds; everything else is exploration of an unbounded input space."),
    level_note=("trusts g++ 12 ASan/UBSan, the harness's own header parsers for the step budget, and the installed "
                "libpng/libjpeg/libtiff; allocation above 256 MiB is turned into std::bad_alloc by replaced operator new"),
    technique=("fault enumeration (truncation points) + structured and seeded mutation of valid files, executed by the real readers "
               "under ASan+UBSan with instrumented devices, allocation cap, arena diff and stack/heap pre-fill differential"),
    rule=("one case per (format, seed file, mutation): truncation length, (header field, boundary value), targeted corruption, "
          "or seeded random mutation; inside a case the bytes go through every entry point x device, each twice (pre-fill "
          "differential). evaluations = reader calls executed and judged; distinct_nontrivial = distinct mutated inputs: "
          "enumerated families are distinct by construction, random families are counted by content hash; every one is a "
          "byte sequence handed to >= 20 reader calls."),
    exhaustive={"quick": False, "thorough": False},
    exhaustive_domain={"quick": "all truncation lengths of the seeds <= 2 KB (crafted small files of every variant, written files, g01*/g04rle/g08rle); head 192 bytes + strided beyond for larger seeds",
                       "thorough": "all truncation lengths of the seeds <= 4 KB; head 512 bytes + 384 strided points beyond for larger seeds"},
    types=["bmp: rgb8 rgba8 (+ read_and_convert to rgb8 gray8 rgba8); palette 1/4/8, RLE4/8, OS/2, 555/565/32-bit bit-fields, 24, 32, v4 header, top-down",
           "pnm: gray8 rgb8 gray1; P1-P6", "targa: rgb8 rgba8; raw/RLE x both origins",
           "jpeg: gray8 rgb8 cmyk8 (files written by GIL + fixtures)", "tiff: gray8 rgb8 rgba8 rgb16 gray1 (strip/tiled, none/LZW/packbits/deflate; std::istream and file name only)",
           "png: PngSuite fixtures + written files (registered after the short-read fix)"],
    assumptions=["accepted outcomes: return, std::ios_base::failure, any other std::exception (counted), bad_alloc from the 256 MiB cap",
                 "step budget: reads returning nothing at EOF <= 4096 + 8*min(declared pixels + declared palette entries, 4Mi); "
                 "bytes delivered + read calls <= 64 + 16*(len + min(4*declared pixels, 256Mi)); 'declared' comes from the harness's own parse of the presented bytes",
                                  "headers declaring more than 2 Mi pixels run a reduced entry set (info, read_image, scanline); the scanline loop pulls at most 70000 rows",
                 "the in-process differential needs ASAN_OPTIONS detect_stack_use_after_return=0 (set for these runs)",
                 "a decoder that accepts a truncated file and returns an image is counted (ok-on-truncated.*), not alarmed",
                 "the digest of read_image_info and of the scanline reader covers every member of the backend's _info struct (PNG also with all "
                 "read_* switches on: entry info-all), the settings' top_left/dim, _scanline_length and BMP's palette; BMP's colour masks are left "
                 "uninitialised by GIL until 15/16-bit data is read and are not dumped",
                 "short-field-read-accepted: for BMP and TARGA (GIL's own decoders, headers read as 1/2/4-byte fields) a device read of <= 8 bytes "
                 "that comes back short must end in an exception -- judged for read_image_info and for every entry point when the input ends inside "
                 "the fixed header (54/26/18 bytes); independent of what the leftover bytes are (the pre-fill differential is blind when the buffer "
                 "still holds the previous field)",
                 "stdio-level counters (wrapped getc/fgetc/fread/fseek) make the FILE* and file-name devices countable after EOF (glibc does not call the "
                 "cookie / kernel again): the same step budget applies to all three devices; the std::istream device runs first in every case",
                 "enum.* families: every enumerated / count-like / bit-field header field of the representative seeds x every value of its small range "
                 "(BMP bpp 0..33, compression 0..8, header sizes, colour counts; TARGA descriptor 0..255, depth 0..33, image/colour-map types; PNG IHDR "
                 "bytes; JPEG precision, component ids / sampling factors / table selectors, Ss/Se/AhAl, DRI; TIFF compression, photometric, orientation, "
                 "planar, sample format, bits/samples per pixel, predictor, tile sizes ...); BMP bit-field masks: all splits of 16 bits into three "
                 "contiguous masks (every fifth in all six orders), gapped / 32-bit / alpha / non-contiguous / overlapping masks, masks carried by "
                 "40+12/16, 52, 56, 108, 124-byte headers under BI_RGB / BI_BITFIELDS / BI_ALPHABITFIELDS; TARGA every depth 1..32 x image type; PNM "
                 "maxval 2^k-1, 2^k, 2^k+1",
                 "seeds with syntax the writers never emit: PNM comments in every legal header position / CR / CRLF / tabs / comment in the raster; BMP gap "
                 "before the pixel data, masks in a v3 header, BI_ALPHABITFIELDS; TARGA id field + colour map on true-colour, extension area + footer; "
                 "PNG with every ancillary chunk the backend has a getter for; JPEG progressive / restart markers / optimised tables / 4:4:4 / 4:1:1 / "
                 "CMYK written by libjpeg; TIFF big-endian / separate planes / several directories / one-row strips written by libtiff",
                 "for the PNG / JPEG / TIFF glue the scanline entry runs in every control / enum / targeted case and in one truncation / boundary-value / "
                 "random mutation in four (quick); seeds marked sparse (every truncation dies at the open finding F60) are truncated at 24 head + strided points",
                 "ignorable-data-changes-result: a valid file with an inserted JPEG COM/APPn segment (2..65535 bytes, also before SOS and several in a "
                 "row), PNG tEXt/zTXt/private chunk (up to 70000 bytes) or private TIFF tag (up to 70000 bytes) must decode to the pixels of the file "
                 "without it through every device",
                 "leak detection off (third-party error paths)",
                 "std::istream seek semantics of std::stringbuf (positions beyond the end fail)"],
    tus=[tu("c11_f%d" % k, SRC, "asan", extra=["-DC11_FMT=%d" % k, "-fno-sanitize=alignment"] + WRAP, libs=libs, deps=DEPS) for k, _, libs, _, _ in FORMATS],
    runs=[run("c11_f%d" % k, shards=16, min_cases={"quick": fq, "thorough": ft}, max_restarts=3000,
              asan_extra="detect_stack_use_after_return=0", timeout={"quick": 1500, "thorough": 5400})
          for k, _, _, fq, ft in FORMATS],
    require_obs=["outcome.ok", "outcome.ios_failure", "outcome.alloc-cap", "entry.info", "entry.read_image", "entry.read_view",
                 "entry.convert_image", "entry.convert_view", "entry.scanline", "entry.any_image", "entry.read_image-subrect",
                 "entry.equiv", "entry.info-all", "short-field-read.judged",
                 "device.FILEptr", "device.filename", "device.istream"],
)
