import os
from props import tu, run, FCO, NONULL

_DEPS = ["harness/c15_util.hpp"]
_THR = "harness/c16_threshold.cpp"
_MOR = "harness/c16_morph.cpp"

# threshold_binary / threshold_truncate do not compile for float32 channels on the unchanged tree
# (reported by the two probes below).  Once that is repaired, set this to True (or run with
# C16_ENABLE_F32=1): it adds the float32 sweep (C16_PART=2 of c16_threshold.cpp) as a normal binary + run.
# threshold_truncate does not instantiate when exactly one of source/destination has float32 channels; the two probes
# would record that as C16|uninstantiable|threshold_truncate.{f32-to-u8,u8-to-f32}|...  They are OFF in the registered
# configuration (a mixed float/integer truncate is nowhere promised and a compile error leaves nothing to monitor);
# C16_MIXED_PROBES=1 switches them on.
MIXED_PROBES = os.environ.get("C16_MIXED_PROBES", "0") == "1"
ENABLE_F32 = os.environ.get("C16_ENABLE_F32", "1") == "1"

_tus = [
    tu("c16_thr", _THR, "asan", extra=NONULL + ["-DC16_PART=0"], deps=_DEPS),
    tu("c16_otsu", _THR, "asan", extra=NONULL + ["-DC16_PART=1"], deps=_DEPS),
    tu("c16_morph0", _MOR, "asan", extra=NONULL + ["-DC16_MPART=0"], deps=_DEPS),
    tu("c16_morph1", _MOR, "asan", extra=NONULL + ["-DC16_MPART=1"], deps=_DEPS),
    tu("c16_morph2", _MOR, "asan", extra=NONULL + ["-DC16_MPART=2"], deps=_DEPS),
    tu("c16_morph3", _MOR, "asan", extra=NONULL + ["-DC16_MPART=3"], deps=_DEPS),
    # differing source/destination channel orders, compared per colour
    tu("c16_morph4", _MOR, "asan", extra=NONULL + ["-DC16_MPART=4"], deps=_DEPS),
    tu("c16_morph5", _MOR, "asan", extra=NONULL + ["-DC16_MPART=5"], deps=_DEPS),
    tu("c16_median_mixed", _MOR, "asan", extra=NONULL + ["-DC16_MPART=6"], deps=_DEPS),
    tu("c16_otsu_mixed", _THR, "asan", extra=NONULL + ["-DC16_PART=3"], deps=_DEPS),
    # source and destination of different channel TYPES (oracle compares the exact source value with the threshold)
    tu("c16_thr_narrow", _THR, "asan", extra=NONULL + ["-DC16_PART=4"], deps=_DEPS),
    tu("c16_thr_sign", _THR, "asan", extra=NONULL + ["-DC16_PART=5"], deps=_DEPS),
    tu("c16_thr_f32mix", _THR, "asan", extra=NONULL + ["-DC16_PART=6"], deps=_DEPS),
    tu("c16_otsu_types", _THR, "asan", extra=NONULL + ["-DC16_PART=7"], deps=_DEPS),
    tu("c16_thr_sign32", _THR, "asan", extra=NONULL + ["-DC16_PART=8"], deps=_DEPS),
    tu("c16_probe_trunc_f32_u8", "harness/c16_probe_mixed.cpp", "asan", extra=["-DC16_PROBE=0"], probe="threshold_truncate.f32-to-u8"),
    tu("c16_probe_trunc_u8_f32", "harness/c16_probe_mixed.cpp", "asan", extra=["-DC16_PROBE=1"], probe="threshold_truncate.u8-to-f32"),
    tu("c16_probe_f32_binary", "harness/c16_probe_f32.cpp", "asan", extra=["-DC16_PROBE=0"], probe="threshold_binary.f32"),
    tu("c16_probe_f32_truncate", "harness/c16_probe_f32.cpp", "asan", extra=["-DC16_PROBE=1"], probe="threshold_truncate.f32"),
]
_runs = [
    run("c16_thr", shards=6, min_cases={"quick": 252, "thorough": 567}),
    # every Otsu case that dies (F18) costs one restart of its shard
    run("c16_otsu", shards=16, min_cases={"quick": 700, "thorough": 2800}, max_restarts=600),
    run("c16_morph0", shards=4, min_cases={"quick": 104, "thorough": 290}),
    run("c16_morph1", shards=4, min_cases={"quick": 199, "thorough": 577}),
    run("c16_morph2", shards=4, min_cases={"quick": 104, "thorough": 290}),
    run("c16_morph3", shards=4, min_cases={"quick": 199, "thorough": 577}),
    run("c16_morph4", shards=4, min_cases={"quick": 104, "thorough": 290}),
    run("c16_morph5", shards=4, min_cases={"quick": 104, "thorough": 290}),
    run("c16_median_mixed", shards=4, min_cases={"quick": 196, "thorough": 576}),
    run("c16_otsu_mixed", shards=4, min_cases={"quick": 420, "thorough": 1770}, max_restarts=600),
    run("c16_thr_narrow", shards=8, min_cases={"quick": 216, "thorough": 486}),
    run("c16_thr_sign", shards=6, min_cases={"quick": 252, "thorough": 567}),
    run("c16_thr_f32mix", shards=4, min_cases={"quick": 144, "thorough": 324}),
    run("c16_otsu_types", shards=4, min_cases={"quick": 876, "thorough": 3684}, max_restarts=600),
    run("c16_thr_sign32", shards=4, min_cases={"quick": 144, "thorough": 324}),
]
if ENABLE_F32:
    _tus.append(tu("c16_thr_f32", _THR, "asan", extra=NONULL + ["-DC16_PART=2"], deps=_DEPS))
    _runs.append(run("c16_thr_f32", shards=2, min_cases={"quick": 72, "thorough": 162}))

if not MIXED_PROBES:
    _tus = [t for t in _tus if not t["name"].startswith("c16_probe_trunc_")]

CFG = dict(
    level="exploration",
    level_text=("Runs the real threshold_binary/threshold_truncate (all 256 thresholds for 8-bit, range ends + source values "
                "+-1 + seeded for 16-bit), threshold_optimal (Otsu) on seed-independent content classes for u8/s8/u16/s16, "
                "dilate/erode/opening/closing with symmetric structuring elements and median_filter on every small image "
                "shape under ASan+UBSan+_GLIBCXX_ASSERTIONS, writing into destination views carved out of noise-filled "
                "arenas, and compares every output pixel (and every arena byte outside the destination) with the "
                "per-pixel definition computed by the obvious loop. Bounded shapes and seeded contents: exploration."),
    level_note=("trusts the harness's direct per-pixel oracles; Otsu is only required to terminate without UB and to be a "
                "single-threshold binarisation (as the property states), not to pick the variance-optimal threshold; "
                "float32 channels are covered only by compile probes until threshold_* instantiate for them"),
    technique=("differential execution against per-pixel definitions; algebraic laws (order, monotonicity, idempotence) on the "
               "real outputs; destination arena with byte-for-byte comparison outside the view; sanitizer reports fatal and "
               "keyed by content class; compile probes for uninstantiable combinations"),
    rule=("threshold: one case per (channel type, layout, shape); inside, every threshold of the list x 8 variants "
          "(binary regular/inverse with deduced and explicit max, truncate threshold/zero x regular/inverse) is one "
          "evaluation = one distinct (type, layout, shape, threshold, variant) tuple. Otsu: one case per (type, layout, content "
          "class, shape), two evaluations (directions). Morphology: one case per (pixel type, shape); per structuring element "
          "(sizes 1,3,5[,7] x {full, cross, empty, seeded symmetric}) 15 checked GIL calls (dilate, erode on two ordered "
          "sources, opening, closing, their re-application, gradient, iterations 0 and 2) = 1 distinct tuple (type, shape, SE). "
          "Image contents rotate through six content classes for every channel type: full-range, few-levels, impulses, "
          "special-mix (each pixel with probability 1/2 one of {min, min+1, -1, 0, 1, max-1, max}, else seeded), special-only, "
          "special-neighbours (one special value and its +-1 neighbours); float32 uses {0, next(0), FLT_MIN, 0.5, next(0.5), "
          "prev(1), 1}. Median: one case per (pixel type, shape); per kernel size k and content class one evaluation/distinct tuple. All tuples are "
          "distinct by construction of the nested enumeration and non-trivial (compared against the definition), except "
          "that empty shapes have no output pixel (they check that nothing is read or written)."),
    exhaustive={"quick": False, "thorough": False},
    exhaustive_domain={
        "quick": ("threshold: u8 complete over all 256 thresholds x 8 variants x shapes 0..5^2 x {gray, rgb, rgb->bgr}; u16/s16 "
                  "boundary+seeded thresholds; Otsu: 16 content classes x 8 shapes x {u8,s8,u16,s16} x {gray,rgb} x 2 directions; "
                  "morphology shapes 0..7^2 (+0x0,0x3,3x0), SE sizes 1,3,5; median shapes 1..7^2, k 1,3,5; contents seeded"),
        "thorough": ("threshold shapes 0..8^2; Otsu shapes 1..6^2; morphology shapes ..12^2, SE sizes ..7; median shapes ..12^2, k ..7"),
    },
    types=["threshold_binary/truncate: gray8, rgb8, rgb8->bgr8, gray16, rgb16, gray16s, rgb16s, gray32f, rgb32f",
           "threshold_binary/truncate with different source/destination channel types: u16->u8, u16->u8 (rgb->bgr), s16->u8, u32->u8, "
           "s32->u8, s32->u16, s32->u32 (gray, rgb->bgr), u32->s32 (gray, rgb), s8->u8, u8->s8, s16->u16 (rgb), u16->s16, u8->u16, s8->u16, u8->s16 (rgb->bgr); threshold_binary only: "
           "f32->u8 (gray, rgb->bgr), u8->f32, u16->f32 (threshold_truncate: compile probes)",
           "threshold_optimal with different channel types: u16->u8 (gray, rgb->bgr), s16->u8, s8->u8, u8->s8, s16->u16, u16->s16, u8->u16, s8->u16, u8->f32",
           "threshold_optimal: gray/rgb x uint8, int8, uint16, int16",
           "dilate/erode/opening/closing/morphological_gradient: gray8, rgb8, gray8s, gray16, gray16s, gray32f (no gradient: does "
           "not instantiate) with detail::kernel_2d<float> structuring elements",
           "median_filter: gray8, rgb8, gray8s, gray16, gray16s, gray32f",
           "differing source/destination channel orders, judged per colour: rgb8->bgr8, bgr8->rgb8, rgba8->abgr8, planar rgb8->bgr8 "
           "for dilate/erode/opening/closing/gradient, median_filter and threshold_optimal (+ rgb16->bgr16 for Otsu)"],
    assumptions=["with different source/destination channel types the comparison is made on the exact source value against the "
                 "threshold (a value of the destination channel type), as documented; a truncate result meaning 'source value unchanged' "
                 "is judged only when that value is representable in the destination type",
                 "threshold_truncate with float32 channels on exactly one side (f32->u8, u8->f32) does not instantiate; that is nowhere "
                 "promised, so it is not monitored (probe source harness/c16_probe_mixed.cpp kept, off unless C16_MIXED_PROBES=1); "
                 "threshold_adaptive is not part of the property and is not run",
                 "channels of source and destination pair by colour, not by memory position, when their layouts differ "
                 "(the functions only require compatible colour spaces)",
                 "preconditions respected: equal source/destination dimensions, odd median kernel sizes, non-empty sources for "
                 "median (edge replication), centred symmetric (transpose- and point-symmetric) 0/1 structuring elements",
                 "the centre pixel always takes part in dilate/erode, as the code documents",
                 "deduced max of threshold_binary = std::numeric_limits<channel>::max()",
                 "-fno-sanitize=null: nth_channel_view of an empty (null-storage) view binds a reference to *nullptr without "
                 "loading through it (DESIGN section 4)",
                 "Otsu content classes are built so that what the unchanged code does with them (clean / division by zero / "
                 "histogram index out of range) depends on the class only, never on the seed"],
    tus=_tus,
    runs=_runs,
    require_obs=["otsu.completed.u8.seeded-last-between", "otsu.completed.u8.constant-lo", "otsu.completed.u16.empty",
                 "morph.content.gray8s.special-mix", "morph.content.gray16s.special-mix", "morph.content.gray32f.special-neighbours",
                 "morph.content.gray8.special-only", "median.content.gray16s.special-mix", "median.content.gray32f.special-only"],
)
