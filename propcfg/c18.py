from props import tu, run, FCO, NONULL

_SRC = "harness/c18_toolbox_colour.cpp"
_DEPS = ["harness/c09_cube.hpp"]
# cases per part: 0 = hsv+hsl (4x16 slabs + 2 grids + 2 hue-periodic), 1 = xyz+lab (4x16), 2 = ycbcr 601/709 (4x16) +
# cmyka (16+1) + gray_alpha (7) + gray->rgba (5) + luminance (1)
_CASES = {0: 68, 1: 64, 2: 94}

CFG = dict(
    level="exploration",
    level_text=("Runs the real toolbox converters on every one of the 2^24 rgb8 pixels (native build, both tiers) for hsv, "
                "hsl, xyz, lab, ycbcr_601, ycbcr_709 and the cmyk->cmyka->rgba leg, forward and back, and compares the "
                "result with the pixel that went in (exact for hsv/hsl/xyz, fixed tolerance otherwise) and every "
                "intermediate channel with its range; the same sweep runs under ASan+UBSan with float-cast-overflow armed "
                "on a stratified subset (quick) or the whole cube (thorough). hsv/hsl boundary grids (hue k/6 +-3 ulp, "
                "hue 1, s/v/l in {0,1,thresholds}) are compared with the textbook formulas. For the rgb8 domain the "
                "property quantifies over, this is complete observation; it is still testing, not proof, for every "
                "other source depth."),
    level_note=("exhaustive over rgb8 only; trusts the harness's long-double textbook hsv/hsl formulas and g++ 12 / glibc powf; "
                "the toolbox has no converter *to* cmyka, so that leg is restated through core rgb->cmyk"),
    technique="exhaustive value sweep of the real converters (round trip + range), boundary grids against textbook formulas, native + ASan/UBSan(+float-cast-overflow)",
    rule=("one case per colour space x slab of 16 red values (16 slabs cover the cube); every pixel of the slab is converted "
          "rgb8 -> space -> rgb8. evaluations = round trips / grid points / channel tuples checked; distinct_nontrivial = "
          "distinct (colour space, layout, source pixel) triples of the native run, distinct by construction of the nested "
          "enumeration (the sanitizer run repeats the enumeration and is not counted again); grid cases count distinct "
          "(h,s,v) triples of a sorted, de-duplicated grid; all are non-trivial (each is compared with its source pixel or "
          "the textbook value)."),
    exhaustive={"quick": True, "thorough": True},
    exhaustive_domain={"quick": "all 2^24 rgb8 pixels per colour space in the native build; sanitizer build: stratified subset (~3.5e5 pixels per space: greys, edges, faces/3, 29^3 lattice, dark and corner neighbourhoods, seeded 1/64)",
                       "thorough": "all 2^24 rgb8 pixels per colour space in both the native and the ASan/UBSan build"},
    types=["rgb8_pixel_t", "bgr8_pixel_t", "hsv32f_pixel_t", "hsl32f_pixel_t", "xyz32f_pixel_t", "lab32f_pixel_t",
           "ycbcr_601_8_pixel_t", "ycbcr_709_8_pixel_t", "cmyk8_pixel_t", "cmyka8/16/32f_pixel_t", "rgba8/16/32f_pixel_t",
           "gray_alpha8/16_pixel_t", "gray8/16_pixel_t", "pixel<double,rgb_layout_t>", "pixel<double,gray_layout_t>"],
    assumptions=["round-trip tolerance fixed per space from the complete 2^24 calibration: hsv, hsl, xyz 0; lab 1; ycbcr_601 3; ycbcr_709 3; cmyk/cmyka leg 1",
                 "ranges: h,s,v,l in [0,1] exactly; xyz between 0 and the D65 white point; L* in [0,100]; a*, b* finite",
                 "no toolbox converter to cmyka exists: the leg is rgb8 -> cmyk8 (core) -> cmyka8(alpha=max) -> rgba8 (toolbox)",
                 "what cmyka -> rgba does with a non-opaque alpha is not stated by the property: recorded as an observation only",
                 "hue 1 is compared with hue 0 for hsv and hsl on an (s,v|l) grid; hue > 1 and hue < 0 are outside the documented range and not generated",
                 "alpha_gray*_pixel_t is not exercised (it does not instantiate get_color: declared over a layout instead of a colour space)"],
    tus=[tu("c18_native%d" % k, _SRC, "native", extra=["-DC18_PART=%d" % k], deps=_DEPS) for k in range(3)]
        + [tu("c18_asan%d" % k, _SRC, "asan", extra=FCO + ["-DC18_PART=%d" % k], deps=_DEPS) for k in range(3)],
    runs=[run("c18_native%d" % k, shards=8, min_cases={"quick": _CASES[k], "thorough": _CASES[k]}) for k in range(3)]
        + [run("c18_asan%d" % k, shards=8, min_cases={"quick": _CASES[k], "thorough": _CASES[k]}, secondary=True) for k in range(3)],
    require_obs=["rt.hsv.full-slab", "rt.hsl.full-slab", "rt.xyz.full-slab", "rt.ycbcr601.full-slab", "cmyka.non-opaque-alpha-*"],
)
