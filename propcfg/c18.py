from props import tu, run, FCO, NONULL

_SRC = "harness/c18_toolbox_colour.cpp"
_DEPS = ["harness/c09_cube.hpp"]
# cases per part: 0 = hsv+hsl (4x16 slabs + 2 grids + 2 hue-periodic), 1 = xyz+lab (4x16), 2 = ycbcr 601/709 (4x16) +
# cmyka (16+1) + luminance (1)
_CASES = {0: 68, 1: 64, 2: 82}
# gray -> rgba and gray_alpha -> rgba into every destination (harness/c18_gray_rgba.cpp): part 0 = 6 gray sources x 12
# destinations + 1 record; part 1 = 4 gray_alpha sources x (12 + 5 packed / bit-aligned destinations)
_GSRC = "harness/c18_gray_rgba.cpp"
_GCASES = {0: 73, 1: 68}

CFG = dict(
    level="exploration",
    level_text=("Runs the real toolbox converters on every one of the 2^24 rgb8 pixels (native build, both tiers) for hsv, "
                "hsl, xyz, lab, ycbcr_601, ycbcr_709 and the cmyk->cmyka->rgba leg, forward and back, and compares the "
                "result with the pixel that went in (exact for hsv/hsl/xyz, fixed tolerance otherwise) and every "
                "intermediate channel with its range; the same sweep runs under ASan+UBSan with float-cast-overflow armed "
                "on a stratified subset (quick) or the whole cube (thorough). hsv/hsl boundary grids (hue k/6 +-3 ulp, "
                "hue 1, s/v/l in {0,1,thresholds}) are compared with the textbook formulas. For the rgb8 domain the "
                "property quantifies over, this is complete observation; it is still testing, not proof, for every "
                "other source depth."),
    level_note=("exhaustive over rgb8 only; trusts the harness's long-double textbook hsv/hsl formulas and g++ 12 / glibc powf; "
                "the toolbox has no converter *to* cmyka, so that leg is restated through core rgb->cmyk"),
    technique="exhaustive value sweep of the real converters (round trip + range), boundary grids against textbook formulas, native + ASan/UBSan(+float-cast-overflow)",
    rule=("one case per colour space x slab of 16 red values (16 slabs cover the cube); every pixel of the slab is converted "
          "rgb8 -> space -> rgb8. evaluations = round trips / grid points / channel tuples checked; distinct_nontrivial = "
          "distinct (colour space, layout, source pixel) triples of the native run, distinct by construction of the nested "
          "enumeration (the sanitizer run repeats the enumeration and is not counted again); grid cases count distinct "
          "(h,s,v) triples of a sorted, de-duplicated grid; all are non-trivial (each is compared with its source pixel or "
          "the textbook value)."),
    exhaustive={"quick": True, "thorough": True},
    exhaustive_domain={"quick": "all 2^24 rgb8 pixels per colour space in the native build; sanitizer build: stratified subset (~3.5e5 pixels per space: greys, edges, faces/3, 29^3 lattice, dark and corner neighbourhoods, seeded 1/64)",
                       "thorough": "all 2^24 rgb8 pixels per colour space in both the native and the ASan/UBSan build"},
    types=["rgb8_pixel_t", "bgr8_pixel_t", "hsv32f_pixel_t", "hsl32f_pixel_t", "xyz32f_pixel_t", "lab32f_pixel_t",
           "ycbcr_601_8_pixel_t", "ycbcr_709_8_pixel_t", "cmyk8_pixel_t", "cmyka8/16/32f_pixel_t", "rgba8/16/32f_pixel_t",
           "gray_alpha8/16/32f/8s_pixel_t", "gray8/16/32/32f/8s/16s_pixel_t", "rgba8/16/32/32f/8s/16s, bgra/argb/abgr 8 and 32f",
           "packed rgba5551/rgba4444/argb1555, bit-aligned rgba5551/rgba4444 (gray_alpha sources)", "pixel<double,rgb_layout_t>", "pixel<double,gray_layout_t>"],
    assumptions=["round-trip tolerance fixed per space from the complete 2^24 calibration: hsv, hsl, xyz 0; lab 1; ycbcr_601 3; ycbcr_709 3; cmyk/cmyka leg 1",
                 "ranges: h,s,v,l in [0,1] exactly; xyz between 0 and the D65 white point; L* in [0,100]; a*, b* finite",
                 "no toolbox converter to cmyka exists: the leg is rgb8 -> cmyk8 (core) -> cmyka8(alpha=max) -> rgba8 (toolbox)",
                 "what cmyka -> rgba does with a non-opaque alpha is not stated by the property: recorded as an observation only",
                 "hue 1 is compared with hue 0 for hsv and hsl on an (s,v|l) grid; hue > 1 and hue < 0 are outside the documented range and not generated",
                 "gray -> rgba: alpha must equal the maximum of the destination's alpha channel exactly (hand-written table per channel type and channel_traits<>::max_value()); gray_alpha -> rgba: alpha == channel_convert(source alpha); colour channels == channel_convert(gray); every channel in range and within one unit of the exact rescaling",
                 "gray -> packed / bit-aligned rgba does not instantiate (gray_to_rgba.hpp uses channel_type<P2>): recorded as an observation, not claimed",
                 "alpha_gray*_pixel_t is not exercised (it does not instantiate get_color: declared over a layout instead of a colour space)"],
    tus=[tu("c18_native%d" % k, _SRC, "native", extra=["-DC18_PART=%d" % k], deps=_DEPS) for k in range(3)]
        + [tu("c18_asan%d" % k, _SRC, "asan", extra=FCO + ["-DC18_PART=%d" % k], deps=_DEPS) for k in range(3)]
        + [tu("c18_gray_native%d" % k, _GSRC, "native", extra=["-DC18G_PART=%d" % k]) for k in (0, 1)]
        + [tu("c18_gray_asan%d" % k, _GSRC, "asan", extra=FCO + ["-DC18G_PART=%d" % k]) for k in (0, 1)],
    runs=[run("c18_native%d" % k, shards=8, min_cases={"quick": _CASES[k], "thorough": _CASES[k]}) for k in range(3)]
        + [run("c18_asan%d" % k, shards=8, min_cases={"quick": _CASES[k], "thorough": _CASES[k]}, secondary=True) for k in range(3)]
        + [run("c18_gray_native%d" % k, shards=4, min_cases={"quick": _GCASES[k], "thorough": _GCASES[k]}) for k in (0, 1)]
        + [run("c18_gray_asan%d" % k, shards=8, min_cases={"quick": _GCASES[k], "thorough": _GCASES[k]}, secondary=True) for k in (0, 1)],
    require_obs=["gray-to-rgba.dst.rgba32f", "gray-to-rgba.dst.abgr32f", "gray-to-rgba.dst.rgba32", "gray-to-rgba.dst.rgba16s",
                 "gray-alpha.dst.rgba32f", "gray-alpha.dst.rgba5551", "gray-alpha.dst.bitaligned-rgba4444",
                 "gray-to-rgba.not-instantiable.packed-and-bit-aligned-rgba",
                 "rt.hsv.full-slab", "rt.hsl.full-slab", "rt.xyz.full-slab", "rt.ycbcr601.full-slab", "cmyka.non-opaque-alpha-*"],
)
