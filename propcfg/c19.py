from props import tu, run

_PARTS = 12

CFG = dict(
    level="exploration",
    level_text=("Runs the real fill_histogram / histogram::fill on small views (shapes 0..6^2, 0..9^2 thorough) of ten pixel types "
                "(1-4 channels, 8/16 bit, signed and unsigned) with every bin width 1..5 (1..8), all 16 combinations of "
                "mask / limit box / accumulate / dense pre-fill, full-dimension and selected-channel histograms with int, short, "
                "unsigned char and long keys, and compares every bin and the total with a std::map built by the obvious loop over "
                "the harness's own copy of the channel values; then cumulative_histogram (value, monotone, last bin), normalize, "
                "sub_histogram over axis subsets (marginal bins and mass) and over a key range on one axis are compared with the "
                "same model -- each of these post-operations twice, for every histogram dimension instantiated (1-4): on the integer "
                "counts (exact) and, after normalize(), on fractional bins against count/total in long double (1e-9; corner bin == 1, "
                "marginals sum to 1, in-range bins keep their fractional values).  The std::vector / std::array<T,max+1> / std::map fillers and their cumulative forms are compared "
                "with the loop and with the sparse histogram of the gray conversion, with and without accumulate.  Seeded "
                "contents; ASan+UBSan+libstdc++ assertions armed."),
    # bin-width sweep (parts 5, 6): gray8/gray8s/rgb8/rgb8s hold every 8-bit channel value, gray16/gray16s every bin boundary
    # k*w-1, k*w, k*w+1; widths 1..256 (all of them for 8 bit in both tiers and for 16 bit in thorough; 1..48 + primes +
    # powers of two + multiples of 25/41 in quick for 16 bit) plus 257..65535 samples; all 16 mask/limit/accumulate/dense variants
    # parts 8, 9: the source is read-only for every fill entry point (histogram::fill, fill_histogram with all arguments / <dims> /
    # defaults, std vector/array/map fillers; mutable view and const_view; interleaved and planar gray8, rgb8, rgb16, rgb8-planar,
    # rgb8s-planar, rgba16-planar, cmyk8-planar; bin widths 1,2,3,5,41; +-mask +-limits): the whole underlying image is compared
    # before/after (keys source-modified.<type>.<entry>), and two fills from the same view give twice (accumulate) / the same (replace) bins
    level_note="contents, masks and limit boxes are seeded samples within each (type, shape, bin width, variant) class; trusts the std::map oracle",
    technique="differential run of the real histogram code against a std::map<key,count> loop model, ASan/UBSan build",
    rule=("one case per (pixel type, view shape w x h); inside: bin widths x content classes (non-negative / with negative values "
          "for signed channels) x rounds x 16 fill variants x histogram shapes.  evaluations = fill_histogram results compared + "
          "cumulative/normalize/sub_histogram/std-container results compared; distinct_nontrivial = distinct "
          "(type, histogram shape, bin-width class, variant, prior contents, view contents) tuples measured by hashing the "
          "contents (empty views are not counted)."),
    exhaustive={"quick": False, "thorough": False},
    exhaustive_domain={"quick": "all shapes 0..6 x 0..6, all bin widths 1..5, all 16 variants per type; contents/masks/limits seeded.  Bin-width sweep: complete over (8-bit value, width 1..256) for gray8/gray8s/rgb8/rgb8s; 16-bit: every bin boundary +-1 for a dense sample of widths (1..48, primes, powers of two, multiples of 25 and 41, 7 widths above 256)",
                       "thorough": "all shapes 0..9 x 0..9, all bin widths 1..8, 3 rounds; contents/masks/limits seeded.  Bin-width sweep: complete over (8-bit value, width 1..256) for gray8/gray8s/rgb8/rgb8s; 16-bit: every bin boundary +-1 for widths 1..256 and 307 larger widths"},
    types=["gray8", "gray8s", "gray16", "gray16s", "dev2n8", "rgb8", "rgb8s", "rgb16", "rgba8", "cmyk16s",
           "histogram<int...> of full dimension", "histogram<unsigned char>", "histogram<short>", "histogram<short> <1> of rgb8",
           "histogram<int,int> <2,1> of rgb8", "histogram<int,long> <3,0> of rgba8",
           "std::vector<int>", "std::array<int,256|65536>", "std::map<int,int>"],
    assumptions=["limits are limits on the bin key (documented semantics); lower <= upper; masks have the view's dimensions",
                 "the bin key is the C++ signed division ch / bin_width (truncation toward zero) for every channel value and every bin width, powers of two included; limits compare these keys; every signed image of the negative class holds negative values that are not multiples of the bin width in its first pixel and about half of the others",
                 "dense pre-fill only with an explicit finite limit box and only meaningful for 1-D histograms (filler<1>); zero bins that the loop does not have are allowed",
                 "sub_histogram(lo,hi) is checked over one selected axis (tuple comparison is lexicographic for more)",
                 "std-container fillers: unsigned 8/16-bit channels only, as the header requires; the gray conversion is GIL's own (judged by C09)",
                 "histogram_equalization / histogram_matching are not exercised (not part of the statement)"],
    # the TUs that exercise the std::vector filler are compiled as a whole with -D_GLIBCXX_SANITIZE_VECTOR, so that ASan also
    # reports writes into reserved-but-unsized vector capacity
    tus=[tu("c19_asan%d" % k, "harness/c19_histogram.cpp", "asan",
            extra=["-DC19_PART=%d" % k] + (["-D_GLIBCXX_SANITIZE_VECTOR"] if k in (4, 7) else [])) for k in range(_PARTS)]
        + [tu("c19_probe_const_planar", "harness/c19_histogram.cpp", "asan", extra=["-DC19_PART=12"], probe="fill.const-planar-view")],
    runs=[run("c19_asan%d" % k, shards=[4, 4, 4, 4, 8, 8, 8, 8, 4, 4, 4, 4][k],
              min_cases={"quick": [196, 98, 98, 98, 196, 1024, 200, 128, 64, 48, 64, 48][k], "thorough": [400, 200, 200, 200, 400, 1024, 1100, 512, 144, 108, 144, 108][k]}) for k in range(_PARTS)],
    require_obs=["fill.dense.accumulate*", "fill.dense.replace*", "fill.sparse.accumulate*", "fill.sparse.replace.mask.limits",
                 "fill.dense-noop.*", "std.accumulate", "std.replace",
                 "content.neg-nonmultiple.bw-pow2", "content.neg-nonmultiple.bw-other",
                 "std-seq.vector.accumulate.empty.d8", "std-seq.vector.accumulate.empty.d16", "std-seq.vector.accumulate.shorter.d8",
                 "std-seq.vector.accumulate.shorter.d16", "std-seq.vector.accumulate.exact.d*", "std-seq.vector.accumulate.longer.d8",
                 "std-seq.vector.replace.shorter.d16", "std-seq.vector.replace.longer.d8", "std-seq.map.accumulate.empty.d*",
                 "std-seq.map.accumulate.filled.d*", "std-seq.map.replace.filled.d*", "std-seq.array.accumulate.d8", "std-seq.array.accumulate.d16",
                 "source-const.rgb8-planar", "source-const.rgba16-planar", "source-const.gray8", "source.gray8", "source.rgb8", "source.rgb16", "source.rgb8-planar", "source.rgb8s-planar", "source.rgba16-planar", "source.cmyk8-planar",
                 "binning.8bit.signed.bw>=41", "binning.8bit.unsigned.bw>=41", "binning.16bit.signed.bw>=41", "binning.16bit.unsigned.bw>=41",
                 "post.normalized.d1.fractional", "post.normalized.d2.fractional", "post.normalized.d3.fractional", "post.normalized.d4.fractional",
                 "cumulative.corner.normalized.d1", "cumulative.corner.normalized.d2", "cumulative.corner.normalized.d3", "cumulative.corner.normalized.d4"],
)
