from props import tu, run

IOLIBS = ["-lpng", "-ljpeg", "-ltiffxx", "-ltiff", "-lz"]
FSLIBS = ["-lboost_filesystem", "-lboost_system"]   # detail::filesystem::path is boost::filesystem::path in C++14 mode
SRC = "harness/c12_io_roundtrip.cpp"
DEPS = ["harness/c12_io_common.hpp"]

# PART -> (name, shards, floor of cases quick/thorough)
PARTS = [
    (0, "bmp", 4, 80), (1, "pnm", 4, 65), (2, "targa", 4, 80), (3, "png8", 6, 90), (4, "png16", 6, 90),
    (5, "bits_png_pnm", 6, 120), (6, "tiff_a", 8, 170), (7, "tiff_b", 8, 150), (8, "tiff_c", 6, 100),
    (9, "tiff_d", 6, 80), (10, "bits_tiff", 6, 200), (11, "jpeg", 2, 18), (12, "tiff_e", 6, 150),
]

PROBES = [
    (0, "png.gray1.const-view"), (1, "pnm.gray1.const-view"), (2, "pnm.gray1.stepped-view"),
    (3, "tiff.gray1.stepped-view"), (4, "tiff.gray1.const-view"), (5, "tiff.rgb8.FILEptr-sink"),
    (6, "control.png.gray1.stepped-view"),
]

CFG = dict(
    level="exploration",
    level_text=("Runs the real write_view and read_image of all six I/O extensions against the installed libpng/libjpeg/"
                "libtiff under ASan+UBSan: every supported pixel type of each lossless format x view organisation "
                "(contiguous, aligned/padded rows, raw padded buffer, interior sub-view, const view, rotated 180, "
                "subsampled, flipped, rotated 90, planar, planar stepped+flipped, bit-aligned incl. bit-offset sub-views) "
                "x sink (std::ostream, FILE*, file name) x every width and height of the tier's grid, seeded and "
                "structured contents; the image read back is compared channel by channel with a copy of the view taken "
                "before the write. TIFF additionally x {strip, 16x16 tiles, 32x32 tiles} x {none, LZW, deflate, packbits}. "
                "JPEG at quality 100: dimensions, constant images within one level, smooth gradients within a calibrated "
                "bound. Destination-state independence: one destination object (image, any_image holding this or another "
                "alternative, view of a recycled image) is reused over shrinking, growing, equal and mixed size sequences "
                "through read_image (all devices), read_and_convert_image, any_image read and read_view, and must equal a "
                "read of the same bytes into a fresh image after every step. Delivery independence: the read-back of the "
                "sweeps alternates between the written stream / file name and streams that deliver the bytes in pieces, "
                "and per type a 30-180 KB file and two small ones are read through get areas refilled 1/2/7/64/4096/seeded "
                "bytes at a time, a std::ifstream and a std::stringstream filled by write, against a one-piece istringstream. "
                "Names: write_view of a view and of an any_image_view through char const*, std::string, std::wstring, "
                "filesystem::path, FILE*, std::ostream (TIFF: TIFF*) x {format tag, default info, non-default info with an "
                "observable effect} must give the bytes of the std::string name, and the file must decode to the view. Observation of bounded executions only: sizes above the grid, other pixel types and other "
                "library versions are not covered."),
    level_note=("trusts the harness's per-pixel comparison and g++ 12/ASan; the third-party codecs are the installed "
                "system libraries; organisations that a writer rejects at compile time are covered by instantiation "
                "probes, not by executions"),
    technique="differential round trip (write_view -> bytes -> read_image) of the real code under ASan+UBSan against a pixel-wise copy",
    rule=("one case per (format, pixel type, view organisation, sink[, TIFF layout-compression][, row-width class for "
          "sub-byte types]); inside a case every (w,h) of the grid (quick: {1..9,15,16,17,31,32,33}^2, sub-byte also 24 and "
          "40; thorough: {1..40}^2) is one evaluation = one write_view + read_image + comparison. distinct_nontrivial = "
          "number of (case,w,h) triples, distinct by construction of the enumeration; each is non-trivial (>=1 pixel of "
          "seeded contents written, read back and compared). Reuse cases: one per (format, type, api, size order); every "
          "step of the sequence (8-48 files) is one evaluation."),
    exhaustive={"quick": False, "thorough": False},
    exhaustive_domain={"quick": "all (w,h) in {1..9,15,16,17,31,32,33}^2 per case; contents sampled",
                       "thorough": "all (w,h) in {1..40}^2 per case; contents sampled"},
    types=["bmp: rgb8 rgba8 bgr8 argb8", "pnm(binary): gray8 rgb8 bgr8 gray1(bit-aligned)", "targa: rgb8 rgba8 bgr8 argb8",
           "png: gray8 gray16 rgb8 rgba8 rgb16 rgba16 gray1 gray2 gray4(bit-aligned)",
           "tiff: gray8 gray16 gray32 gray32f rgb8 rgb16 rgb32 rgb32f rgba8 rgba16 cmyk8 bgr8 gray1 gray2 gray4, planar variants of the multi-channel types",
           "jpeg: gray8 rgb8 cmyk8 (quality 100)"],
    assumptions=["installed libpng / libjpeg / libtiff as linked by the sandbox",
                 "JPEG bound: calibrated on the unchanged tree over seeds 1-3, both tiers (largest deviation seen: gray 2, "
                 "cmyk 2, rgb 8) and doubled: gray8 4, cmyk8 4, rgb8 16 levels; gradients have per-channel slopes <= 3 "
                 "levels/pixel; pixel-scale chroma noise is excluded (4:2:0 subsampling)",
                 "PNG gray+alpha is compiled out upstream unless BOOST_GIL_IO_ENABLE_GRAY_ALPHA and is not claimed",
                 "TIFF has no FILE* device: its sinks are std::ostream and file name (probe tiff.rgb8.FILEptr-sink records that)",
                 "byte-identical output across sinks is not demanded",
                 "float32 contents are finite values in [0,1], compared by bit pattern"],
    tus=[tu("c12_p%d" % k, SRC, "asan", extra=["-DC12_PART=%d" % k], libs=IOLIBS, deps=DEPS) for k, _, _, _ in PARTS]
        + [tu("c12_probe%d" % k, "harness/c12_probe.cpp", "asan", extra=["-DC12_PROBE=%d" % k], libs=IOLIBS, probe=name)
           for k, name in PROBES]
        + [tu("c12_n%d" % k, "harness/c12_io_names.cpp", "asan", extra=["-DC12N_PART=%d" % k], libs=IOLIBS + FSLIBS, deps=DEPS) for k in range(6)],
    runs=[run("c12_p%d" % k, shards=sh, min_cases={"quick": fl, "thorough": fl}, max_restarts=200)
          for k, _, sh, fl in PARTS]
         + [run("c12_n%d" % k, shards=2, min_cases={"quick": 100, "thorough": 100}, max_restarts=200) for k in range(6)],
    require_obs=["names.char-const-ptr", "names.std-string", "names.std-wstring", "names.filesystem-path", "names.FILEptr", "names.ostream", "names.TIFFptr",
                 "names.arg.tag", "names.arg.default-info", "names.arg.nondefault-info", "names.view", "names.any_image_view", "delivery.frag1", "delivery.frag7", "delivery.frag4096", "delivery.frag-seeded", "delivery.ifstream", "delivery.stringstream-written",
                 "delivery.file-over-64KB", "delivery.file-over-8KB", "reuse.read_image", "reuse.read_and_convert_image", "reuse.any_image", "reuse.read_view", "reuse.bits",
                 "reuse.order.shrinking", "reuse.order.growing", "reuse.order.equal", "reuse.order.mixed", "sink.ostream", "sink.FILEptr", "sink.filename", "org.planar", "org.planar-stepped", "org.subsampled",
                 "org.raw-padded", "org.rot90", "org.bits.subview", "org.bits.subsampled", "tiffcfg.tile16-lzw",
                 "tiffcfg.tile32-none", "tiffcfg.strip-deflate", "tiffcfg.strip-packbits"],
)
