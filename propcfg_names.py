ORG_NAMES = ["gray8", "rgb8", "bgr8", "rgba8", "argb8", "cmyk8", "gray16", "rgb16", "rgb32f", "rgb8_planar",
             "rgba16_planar", "cmyk32f_planar", "packed_rgb565", "packed_bgr556", "packed_gray3", "packed_rgba2222",
             "ba_gray1", "ba_gray2", "ba_gray4", "ba_gray7", "ba_bgr121", "ba_rgb123", "ba_rgb565", "ba_rgb444",
             "ba_dev5x8", "dev5x8_planar", "dev2x16_planar", "virtual_2d_locator<coordinate functor>"]
