#!/usr/bin/env python3
"""Regenerates the two finding tables of DESIGN.md section 7 from known_findings.json."""
import json, os, re
HERE = os.path.dirname(os.path.abspath(__file__))
k = json.load(open(os.path.join(HERE, "known_findings.json")))
fixed = "| id | property | commit | what failed |\n|---|---|---|---|\n"
for e in k["fixed"]:
    txt = e["text"].split(" ", 3)[3] if e["text"].startswith("fixed:") else e["text"]
    fixed += "| %s | %s | `%s` | %s |\n" % (e["id"], e["property"], e["commit"], txt.replace("|", "\\|"))
opn = "| id | property | what | witness | keys |\n|---|---|---|---|---|\n"
for e in k["open"]:
    opn += "| %s | %s | %s | %s | %s |\n" % (e["id"], e["property"], e["what"].replace("|", "\\|"), e.get("witness", "").replace("|", "\\|"),
                                          ", ".join("`%s`" % x.replace("|", "\\|") for x in e["keys"]))
p = os.path.join(HERE, "DESIGN.md")
s = open(p).read()
def sub(name, body, s):
    a = s.index("<!-- BEGIN:%s" % name); a = s.index("\n", a) + 1
    b = s.index("<!-- END:%s -->" % name)
    return s[:a] + body + s[b:]
s = sub("fixed-table", fixed, s)
s = sub("open-table", opn, s)
# seeded changes
import glob
rows = "| id | property | change (author's summary) | needs to manifest | first verdict | now | keys that fire |\n|---|---|---|---|---|---|---|\n"
for d in sorted(glob.glob(os.path.join(HERE, "seeded", "C*-*"))):
    try:
        m = json.load(open(os.path.join(d, "meta.json")))
    except Exception:
        continue
    v = m.get("verification", {})
    re_ = m.get("recheck", {})
    first = "caught" if v.get("caught") else "MISSED"
    now = "caught" if (re_.get("caught") if re_ else v.get("caught")) else "MISSED"
    oth = [c for c, r in (m.get("recheck_other") or {}).items() if r.get("caught")]
    if now == "MISSED" and oth:
        now = "caught by " + "/".join(oth)
        keys = (m["recheck_other"][oth[0]].get("keys") or [])
    keys = (re_.get("keys") if re_ else v.get("check_keys")) or []
    summ = str(m.get("summary", "")).replace("|", "\\|").replace("\n", " ")[:260]
    need = str(m.get("needs_to_manifest", "")).replace("|", "\\|").replace("\n", " ")[:220]
    rows += "| %s | %s | %s | %s | %s | %s | %s |\n" % (os.path.basename(d), m.get("property", ""), summ, need, first, now,
            ", ".join("`%s`" % k.replace("|", "\\|")[:90] for k in keys[:2]))
s = sub("seeded-table", rows, s)
# status table of section 0: binaries from propcfg, numbers from the committed evidence (quick, seed 1) and
# from thorough_summary.json (written by the last thorough sweep)
import sys
sys.path.insert(0, HERE)
import props as P
thor = {}
tp = os.path.join(HERE, "thorough_summary.json")
if os.path.exists(tp):
    thor = json.load(open(tp))
st = "| id | binaries (one TU each) | quick tier (committed evidence) | thorough tier (last sweep) | open findings |\n|---|---|---|---|---|\n"
for pid in sorted(P.PROPS):
    cfg = P.PROPS[pid]
    prof = {}
    for t in cfg["tus"]:
        if t.get("probe"):
            prof["probe"] = prof.get("probe", 0) + 1
        else:
            prof[t["profile"]] = prof.get(t["profile"], 0) + 1
    bins = " + ".join("%d %s" % (n, {"asan": "ASan+UBSan", "native": "native -O2", "probe": "compile probes"}.get(k, k)) for k, n in sorted(prof.items()))
    q = ""
    ep = os.path.join(HERE, "evidence", pid + ".json")
    if os.path.exists(ep):
        e = json.load(open(ep)); c = e["coverage"]
        q = "%s cases, %s evaluations, %s distinct; %s s; max case CPU %s ms" % (c.get("cases", c.get("cases_run", "?")), c.get("evaluations", "?"), c.get("distinct_nontrivial", "?"), e.get("wall_s", "?"), c.get("counters", {}).get("max_case_cpu_ms", "?"))
        if e.get("tier") != "quick": q = "(%s) " % e.get("tier") + q
    t = thor.get(pid, "")
    opn_ids = " ".join(e["id"] for e in k["open"] if e["property"] == pid) or "–"
    st += "| %s | %s | %s | %s | %s |\n" % (pid, bins, q, t, opn_ids)
s = sub("status-table", st, s)
open(p, "w").write(s)
print("DESIGN.md tables: %d fixed, %d open" % (len(k["fixed"]), len(k["open"])))
