#!/usr/bin/env python3
"""Regenerates the two finding tables of DESIGN.md section 7 from known_findings.json."""
import json, os, re
HERE = os.path.dirname(os.path.abspath(__file__))
k = json.load(open(os.path.join(HERE, "known_findings.json")))
fixed = "| id | property | commit | what failed |\n|---|---|---|---|\n"
for e in k["fixed"]:
    txt = e["text"].split(" ", 3)[3] if e["text"].startswith("fixed:") else e["text"]
    fixed += "| %s | %s | `%s` | %s |\n" % (e["id"], e["property"], e["commit"], txt.replace("|", "\\|"))
opn = "| id | property | what | witness | keys |\n|---|---|---|---|---|\n"
for e in k["open"]:
    opn += "| %s | %s | %s | %s | %s |\n" % (e["id"], e["property"], e["what"].replace("|", "\\|"), e.get("witness", "").replace("|", "\\|"),
                                          ", ".join("`%s`" % x.replace("|", "\\|") for x in e["keys"]))
p = os.path.join(HERE, "DESIGN.md")
s = open(p).read()
def sub(name, body, s):
    a = s.index("<!-- BEGIN:%s" % name); a = s.index("\n", a) + 1
    b = s.index("<!-- END:%s -->" % name)
    return s[:a] + body + s[b:]
s = sub("fixed-table", fixed, s)
s = sub("open-table", opn, s)
open(p, "w").write(s)
print("DESIGN.md tables: %d fixed, %d open" % (len(k["fixed"]), len(k["open"])))
